package main

// Long-lived solver processes spoken to over a pipe in SMT-LIB2.
// The assertion stack mirrors the current path condition (one push level per
// conjunct); definitions are global (:global-declarations) so they survive pops.

import (
	"bufio"
	"fmt"
	"io"
	"math"
	"math/big"
	"os"
	"os/exec"
	"strconv"
	"strings"
	"syscall"
	"time"
)

type Result int

const (
	Unsat Result = iota
	Sat
	Unknown
)

func (r Result) String() string { return [...]string{"unsat", "sat", "unknown"}[r] }

type SolverStats struct {
	Sat, Unsat, Unknown int
	Time                time.Duration
	Errors              int
}

type Solver struct {
	kind      string
	cmd       *exec.Cmd
	in        io.WriteCloser
	out       *bufio.Reader
	emitted   map[int]bool
	declared  map[string]bool
	stack     []*Term
	axLevel   map[int]int // asserted axiom id -> push level
	pending   bool        // a query's push level is still open
	timeoutMs int
	stats     *SolverStats
	log       *os.File
	buf       strings.Builder
	dead      bool
	lastErr   string
}

func NewSolver(kind string, timeoutMs int, stats *SolverStats) *Solver {
	var cmd *exec.Cmd
	switch kind {
	case "z3":
		cmd = exec.Command("z3", "-in")
	case "z3-new":
		cmd = exec.Command("z3-new", "-in")
	case "cvc5":
		cmd = exec.Command("cvc5", "--incremental", "--lang=smt2", "--produce-models", "--fp-exp",
			fmt.Sprintf("--tlimit-per=%d", timeoutMs))
	default:
		panic("unknown solver " + kind)
	}
	// the solver must not outlive the checker (a killed checker would leave a busy solver spinning)
	cmd.SysProcAttr = &syscall.SysProcAttr{Pdeathsig: syscall.SIGKILL}
	in, _ := cmd.StdinPipe()
	outp, _ := cmd.StdoutPipe()
	cmd.Stderr = cmd.Stdout
	if err := cmd.Start(); err != nil {
		panic(err)
	}
	s := &Solver{kind: kind, cmd: cmd, in: in, out: bufio.NewReaderSize(outp, 1<<20), emitted: map[int]bool{},
		declared: map[string]bool{}, timeoutMs: timeoutMs, stats: stats, axLevel: map[int]int{}}
	if p := os.Getenv("VX_SMTLOG"); p != "" {
		s.log, _ = os.Create(fmt.Sprintf("%s.%s.%d.smt2", p, kind, cmd.Process.Pid))
	}
	s.send("(set-option :global-declarations true)")
	s.send("(set-option :produce-models true)")
	if kind != "cvc5" {
		s.send(fmt.Sprintf("(set-option :timeout %d)", timeoutMs))
		s.send("(set-option :pp.decimal true)")
		s.send("(set-option :pp.decimal_precision 25)")
	}
	s.roundTrip()
	return s
}

func (s *Solver) Close() {
	if s.cmd != nil && s.cmd.Process != nil {
		s.in.Close()
		s.cmd.Process.Kill()
		s.cmd.Wait()
	}
	if s.log != nil {
		s.log.Close()
	}
}

func (s *Solver) send(line string) {
	s.buf.WriteString(line)
	s.buf.WriteByte('\n')
}

// roundTrip flushes buffered commands and returns all output lines up to the marker.
func (s *Solver) roundTrip() []string {
	s.buf.WriteString("(echo \"@@done@@\")\n")
	txt := s.buf.String()
	s.buf.Reset()
	if s.log != nil {
		s.log.WriteString(txt)
	}
	if s.dead {
		return []string{"(error \"solver process is dead\")"}
	}
	if _, err := io.WriteString(s.in, txt); err != nil {
		s.dead = true
		s.lastErr = err.Error()
		return []string{"(error \"write to solver failed\")"}
	}
	// watchdog: z3's nlsat does not always honour :timeout; a query that overruns three times its cap plus
	// a minute loses its process (the answer is then "unknown" and the process is restarted)
	proc := s.cmd.Process
	wd := time.AfterFunc(time.Duration(3*s.timeoutMs)*time.Millisecond+60*time.Second, func() { proc.Kill() })
	defer wd.Stop()
	var lines []string
	for {
		l, err := s.out.ReadString('\n')
		if strings.Contains(l, "@@done@@") {
			break
		}
		if l != "" {
			lines = append(lines, strings.TrimRight(l, "\n"))
		}
		if err != nil {
			s.dead = true
			s.lastErr = err.Error()
			lines = append(lines, "(error \"solver died: "+err.Error()+"\")")
			break
		}
	}
	return lines
}

// emit makes sure every non-leaf subterm of t has been defined in the solver.
func (s *Solver) emit(ts *TermStore, t *Term) {
	if t.op == OConst {
		return
	}
	if s.emitted[t.id] {
		return
	}
	// iterative post-order
	type fr struct {
		t *Term
		i int
	}
	st := []fr{{t, 0}}
	for len(st) > 0 {
		f := &st[len(st)-1]
		if f.i < len(f.t.args) {
			a := f.t.args[f.i]
			f.i++
			if a.op != OConst && !s.emitted[a.id] {
				st = append(st, fr{a, 0})
			}
			continue
		}
		x := f.t
		st = st[:len(st)-1]
		if s.emitted[x.id] {
			continue
		}
		s.emitted[x.id] = true
		switch x.op {
		case OSym:
			if d, ok := ts.ufs[x.name]; ok {
				_ = d
			}
			s.send(fmt.Sprintf("(declare-const %s %s)", smtSym(x.name), x.sort))
		case OUF:
			if !s.declared[x.name] {
				s.declared[x.name] = true
				d := ts.ufs[x.name]
				// quote the name in the declaration
				d = strings.Replace(d, "(declare-fun "+x.name+" ", "(declare-fun "+smtSym(x.name)+" ", 1)
				s.send(d)
			}
			s.send(fmt.Sprintf("(define-fun %s () %s %s)", smtName(x), x.sort, body(x)))
		default:
			s.send(fmt.Sprintf("(define-fun %s () %s %s)", smtName(x), x.sort, body(x)))
		}
	}
}

func (s *Solver) popPending() {
	if s.pending {
		s.send("(pop 1)")
		s.pending = false
		for id, lv := range s.axLevel {
			if lv > len(s.stack) {
				delete(s.axLevel, id)
			}
		}
	}
}

// SetPC synchronises the solver's assertion stack with the path condition.
func (s *Solver) SetPC(ts *TermStore, pc []*Term) {
	s.popPending()
	k := 0
	for k < len(pc) && k < len(s.stack) && pc[k] == s.stack[k] {
		k++
	}
	if n := len(s.stack) - k; n > 0 {
		s.send(fmt.Sprintf("(pop %d)", n))
		s.stack = s.stack[:k]
		for id, lv := range s.axLevel {
			if lv > k {
				delete(s.axLevel, id)
			}
		}
	}
	for _, c := range pc[k:] {
		s.emit(ts, c)
		s.send("(push 1)")
		s.send("(assert " + ref(c) + ")")
		s.stack = append(s.stack, c)
		s.assertAxioms(ts, c, len(s.stack))
	}
}

// assertAxioms asserts the definitional axioms relevant to c that are not yet active.
func (s *Solver) assertAxioms(ts *TermStore, c *Term, level int) {
	for _, a := range ts.Axioms(c) {
		if _, ok := s.axLevel[a.id]; ok {
			continue
		}
		s.emit(ts, a)
		s.send("(assert " + ref(a) + ")")
		s.axLevel[a.id] = level
	}
}

// Check decides pc ∧ extra. The query's scope stays open until the next call so
// that GetValues can read the model.
func (s *Solver) Check(ts *TermStore, pc []*Term, extra ...*Term) Result {
	s.SetPC(ts, pc)
	for _, e := range extra {
		s.emit(ts, e)
	}
	s.send("(push 1)")
	s.pending = true
	for _, e := range extra {
		s.send("(assert " + ref(e) + ")")
		s.assertAxioms(ts, e, len(s.stack)+1)
	}
	s.send("(check-sat)")
	t0 := time.Now()
	lines := s.roundTrip()
	s.stats.Time += time.Since(t0)
	res := Unknown
	seen := false
	for _, l := range lines {
		l = strings.TrimSpace(l)
		switch {
		case strings.Contains(l, "(error"):
			s.stats.Errors++
			s.lastErr = l
			if os.Getenv("VX_DEBUG") != "" {
				fmt.Fprintln(os.Stderr, "solver error:", l)
			}
			s.stats.Unknown++
			return Unknown
		case l == "sat":
			res, seen = Sat, true
		case l == "unsat":
			res, seen = Unsat, true
		case l == "unknown" || l == "timeout":
			res, seen = Unknown, true
		}
	}
	if !seen {
		res = Unknown
	}
	switch res {
	case Sat:
		s.stats.Sat++
	case Unsat:
		s.stats.Unsat++
	default:
		s.stats.Unknown++
	}
	if s.dead {
		// restart a fresh process so later queries are not all lost
		s.restart()
	}
	return res
}

func (s *Solver) restart() {
	s.Close()
	n := NewSolver(s.kind, s.timeoutMs, s.stats)
	n.log = s.log
	*s = *n
}

type ModelVal struct {
	Sort   Sort
	U      uint64
	F      float64
	R      *big.Rat
	Approx bool
}

// GetValues must follow a Check that returned Sat.
func (s *Solver) GetValues(ts *TermStore, terms []*Term) (map[int]ModelVal, bool) {
	res := map[int]ModelVal{}
	if len(terms) == 0 {
		return res, true
	}
	for _, t := range terms {
		s.emit(ts, t)
	}
	var sb strings.Builder
	sb.WriteString("(get-value (")
	for _, t := range terms {
		sb.WriteString(ref(t))
		sb.WriteByte(' ')
	}
	sb.WriteString("))")
	s.send(sb.String())
	lines := s.roundTrip()
	txt := strings.Join(lines, "\n")
	if strings.Contains(txt, "(error") {
		s.stats.Errors++
		s.lastErr = txt
		return res, false
	}
	sx, err := parseSexp(txt)
	if err != nil || len(sx.list) != len(terms) {
		s.lastErr = "cannot parse get-value answer: " + txt
		return res, false
	}
	for i, t := range terms {
		pair := sx.list[i]
		if len(pair.list) != 2 {
			return res, false
		}
		mv, ok := parseModelVal(pair.list[1], t.sort)
		if !ok {
			s.lastErr = "cannot parse model value: " + pair.list[1].String()
			return res, false
		}
		res[t.id] = mv
	}
	return res, true
}

// ---------------------------------------------------------------- s-expressions

type sexp struct {
	atom string
	list []*sexp
	isL  bool
}

func (s *sexp) String() string {
	if !s.isL {
		return s.atom
	}
	var parts []string
	for _, x := range s.list {
		parts = append(parts, x.String())
	}
	return "(" + strings.Join(parts, " ") + ")"
}

func parseSexp(txt string) (*sexp, error) {
	pos := 0
	var parse func() (*sexp, error)
	skip := func() {
		for pos < len(txt) && (txt[pos] == ' ' || txt[pos] == '\n' || txt[pos] == '\t' || txt[pos] == '\r') {
			pos++
		}
	}
	parse = func() (*sexp, error) {
		skip()
		if pos >= len(txt) {
			return nil, fmt.Errorf("eof")
		}
		if txt[pos] == '(' {
			pos++
			l := &sexp{isL: true}
			for {
				skip()
				if pos >= len(txt) {
					return nil, fmt.Errorf("eof in list")
				}
				if txt[pos] == ')' {
					pos++
					return l, nil
				}
				x, err := parse()
				if err != nil {
					return nil, err
				}
				l.list = append(l.list, x)
			}
		}
		if txt[pos] == '|' {
			j := strings.IndexByte(txt[pos+1:], '|')
			if j < 0 {
				return nil, fmt.Errorf("unterminated |")
			}
			a := txt[pos : pos+j+2]
			pos += j + 2
			return &sexp{atom: a}, nil
		}
		st := pos
		for pos < len(txt) && !strings.ContainsRune(" \n\t\r()", rune(txt[pos])) {
			pos++
		}
		return &sexp{atom: txt[st:pos]}, nil
	}
	return parse()
}

func parseBits(a string) (uint64, int, bool) {
	if strings.HasPrefix(a, "#x") {
		v, err := strconv.ParseUint(a[2:], 16, 64)
		return v, 4 * (len(a) - 2), err == nil
	}
	if strings.HasPrefix(a, "#b") {
		v, err := strconv.ParseUint(a[2:], 2, 64)
		return v, len(a) - 2, err == nil
	}
	return 0, 0, false
}

func parseReal(x *sexp) (*big.Rat, bool, bool) {
	if !x.isL {
		a := x.atom
		approx := false
		if strings.HasSuffix(a, "?") {
			a = a[:len(a)-1]
			approx = true
		}
		r, ok := new(big.Rat).SetString(a)
		return r, approx, ok
	}
	if len(x.list) == 2 && x.list[0].atom == "-" {
		r, ap, ok := parseReal(x.list[1])
		if !ok {
			return nil, false, false
		}
		return r.Neg(r), ap, true
	}
	if len(x.list) == 3 && x.list[0].atom == "/" {
		a, ap1, ok1 := parseReal(x.list[1])
		b, ap2, ok2 := parseReal(x.list[2])
		if !ok1 || !ok2 || b.Sign() == 0 {
			return nil, false, false
		}
		return a.Quo(a, b), ap1 || ap2, true
	}
	if len(x.list) >= 1 && x.list[0].atom == "root-obj" {
		return nil, false, false
	}
	return nil, false, false
}

func parseModelVal(x *sexp, sort Sort) (ModelVal, bool) {
	mv := ModelVal{Sort: sort}
	switch sort {
	case SBool:
		if x.atom == "true" {
			mv.U = 1
			return mv, true
		}
		return mv, x.atom == "false"
	case SBV8, SBV16, SBV32, SBV64:
		if x.isL && len(x.list) == 3 && x.list[0].atom == "_" && strings.HasPrefix(x.list[1].atom, "bv") {
			v, err := strconv.ParseUint(x.list[1].atom[2:], 10, 64)
			mv.U = v
			return mv, err == nil
		}
		v, _, ok := parseBits(x.atom)
		mv.U = v
		return mv, ok
	case SF64:
		if x.isL && len(x.list) == 4 && x.list[0].atom == "fp" {
			sg, _, ok1 := parseBits(x.list[1].atom)
			ex, _, ok2 := parseBits(x.list[2].atom)
			mn, _, ok3 := parseBits(x.list[3].atom)
			mv.F = math.Float64frombits(sg<<63 | ex<<52 | mn)
			return mv, ok1 && ok2 && ok3
		}
		if x.isL && len(x.list) == 4 && x.list[0].atom == "_" {
			switch x.list[1].atom {
			case "+zero":
				mv.F = 0
			case "-zero":
				mv.F = math.Copysign(0, -1)
			case "+oo":
				mv.F = math.Inf(1)
			case "-oo":
				mv.F = math.Inf(-1)
			case "NaN":
				mv.F = math.NaN()
			default:
				return mv, false
			}
			return mv, true
		}
		return mv, false
	case SReal, SInt:
		r, ap, ok := parseReal(x)
		mv.R, mv.Approx = r, ap
		return mv, ok
	}
	return mv, false
}

package main

import (
	"fmt"
	"go/token"
	"go/types"
	"math"
	"math/big"

	"golang.org/x/tools/go/ssa"
)

type bigRat = big.Rat

// ---------------------------------------------------------------- floats, mode-aware

func (st *State) realMode() bool { return st.h.mode != ModeFP }

// toReal converts a float value (F64 constant or Real term) into a Real term.
func (st *State) toReal(a *Term) *Term {
	if a.sort == SReal {
		return a
	}
	if a.sort == SF64 && a.isConst() {
		if math.IsNaN(a.f) || math.IsInf(a.f, 0) {
			panic(pathEnd{"outside", "non-finite float constant meets a real-valued symbolic float (outside the " + st.h.mode.String() + " reading)"})
		}
		return st.ts.RealF(a.f)
	}
	if a.sort == SF64 && a.op == OIte {
		// a selection among float constants (e.g. a symbolic index into a concrete table)
		return st.ts.Ite(a.args[0], st.toReal(a.args[1]), st.toReal(a.args[2]))
	}
	panic(engineGap("FP term in a real-mode harness"))
}

// rnd is the rounding operator of the RR reading.
func (st *State) rnd(t *Term) *Term {
	if st.h.mode != ModeRR || t.isConst() {
		return t
	}
	r := st.ts.UF("rnd", SReal, t)
	for _, seen := range st.rnds {
		if seen == r {
			return r
		}
	}
	ts := st.ts
	// |rnd t - t| <= 2^-53 |t|, sign symmetry through abs, monotone against earlier applications
	eps := ts.RealRat(new(big.Rat).SetFrac(big.NewInt(1), new(big.Int).Lsh(big.NewInt(1), 53)))
	abs := ts.Ite(ts.rcmp(ORLt, t, ts.RealF(0)), ts.RNeg(t), t)
	d := ts.rbin(ORSub, r, t)
	bound := ts.rbin(ORMul, eps, abs)
	ts.Define(r, ts.And(ts.rcmp(ORLe, d, bound), ts.rcmp(ORLe, ts.RNeg(bound), d)))
	// rnd preserves sign and zero
	zero := ts.RealF(0)
	ts.Define(r, ts.And(ts.Or(ts.rcmp(ORLt, t, zero), ts.rcmp(ORLe, zero, r)), ts.Or(ts.rcmp(ORLt, zero, t), ts.rcmp(ORLe, r, zero))))
	for _, seen := range st.rnds {
		a := seen.args[0]
		ts.Define(r, ts.Or(ts.Not(ts.rcmp(ORLe, a, t)), ts.rcmp(ORLe, seen, r)))
		ts.Define(r, ts.Or(ts.Not(ts.rcmp(ORLe, t, a)), ts.rcmp(ORLe, r, seen)))
	}
	st.rnds = append(st.rnds, r)
	return r
}

// rrExact records that v is a representable float (rnd v = v) - for inputs.
func (st *State) fArith(op token.Token, a, b *Term) *Term {
	ts := st.ts
	if a.isConst() && b.isConst() && a.sort == SF64 && b.sort == SF64 {
		switch op {
		case token.ADD:
			return ts.fbin(OFAdd, a, b)
		case token.SUB:
			return ts.fbin(OFSub, a, b)
		case token.MUL:
			return ts.fbin(OFMul, a, b)
		case token.QUO:
			return ts.fbin(OFDiv, a, b)
		}
	}
	if !st.realMode() {
		switch op {
		case token.ADD:
			return ts.fbin(OFAdd, a, b)
		case token.SUB:
			return ts.fbin(OFSub, a, b)
		case token.MUL:
			return ts.fbin(OFMul, a, b)
		case token.QUO:
			return ts.fbin(OFDiv, a, b)
		}
		panic(engineGap("float op " + op.String()))
	}
	if st.h.mode == ModeORD {
		panic(engineGap("arithmetic on an order-only (ORD) symbolic float; the harness must use mode R, RR or FP"))
	}
	// an infinite constant combined with a (finite) real-valued symbolic float
	if infA, infB := a.sort == SF64 && a.isConst() && math.IsInf(a.f, 0), b.sort == SF64 && b.isConst() && math.IsInf(b.f, 0); infA != infB {
		switch {
		case op == token.ADD && infA, op == token.SUB && infA:
			return a
		case op == token.ADD && infB:
			return b
		case op == token.SUB && infB:
			return ts.F64(-b.f)
		case op == token.QUO && infB:
			return ts.F64(0) // finite / Inf (the sign of the zero is not tracked in the real reading)
		}
	}
	ra, rb := st.toReal(a), st.toReal(b)
	switch op {
	case token.ADD:
		return st.rnd(ts.rbin(ORAdd, ra, rb))
	case token.SUB:
		return st.rnd(ts.rbin(ORSub, ra, rb))
	case token.MUL:
		return st.rnd(ts.rbin(ORMul, ra, rb))
	case token.QUO:
		zeroDiv := false
		if !rb.isConst() {
			zeroDiv = st.branch(ts.Eq(rb, ts.RealF(0)))
		} else {
			zeroDiv = rb.r.Sign() == 0
		}
		if zeroDiv {
			// Go yields +-Inf or NaN here, not a panic. The real reading cannot tell which, so the path
			// continues with NaN as a stand-in and is not claimed (counted as outside the reading):
			// a violation found further on is still replayed natively, a proof on it is not counted.
			st.nonFinite = true
			return ts.F64(math.NaN())
		}
		if !rb.isConst() {
			// division elimination: q with q*b = a (b != 0 on this path)
			q := ts.UF("fdiv", SReal, ra, rb)
			ts.Define(q, ts.Eq(ts.rbin(ORMul, q, rb), ra))
			return st.rnd(q)
		}
		return st.rnd(ts.rbin(ORDiv, ra, rb))
	}
	panic(engineGap("float op " + op.String()))
}

func (st *State) fneg(a *Term) *Term {
	if a.sort == SF64 {
		return st.ts.fun1(OFNeg, a)
	}
	return st.ts.RNeg(a)
}

// fcmp implements Go's float comparisons.
func (st *State) fcmp(op token.Token, a, b *Term) *Term {
	ts := st.ts
	switch op {
	case token.GTR:
		return st.fcmp(token.LSS, b, a)
	case token.GEQ:
		return st.fcmp(token.LEQ, b, a)
	case token.NEQ:
		return ts.Not(st.fcmp(token.EQL, a, b))
	}
	if a.sort == SF64 && b.sort == SF64 {
		switch op {
		case token.LSS:
			return ts.fcmp(OFLt, a, b)
		case token.LEQ:
			return ts.fcmp(OFLe, a, b)
		case token.EQL:
			return ts.fcmp(OFEq, a, b)
		}
	}
	// real reading: symbolic values are finite reals; constants may be ±Inf/NaN
	if a.sort == SF64 && a.isConst() && (math.IsNaN(a.f) || math.IsInf(a.f, 0)) {
		switch {
		case math.IsNaN(a.f):
			return ts.False
		case math.IsInf(a.f, 1):
			return ts.False // +Inf < x, +Inf <= x, +Inf == x all false for finite x
		default:
			return ts.Bool(op != token.EQL)
		}
	}
	if b.sort == SF64 && b.isConst() && (math.IsNaN(b.f) || math.IsInf(b.f, 0)) {
		switch {
		case math.IsNaN(b.f):
			return ts.False
		case math.IsInf(b.f, 1):
			return ts.Bool(op != token.EQL)
		default:
			return ts.False
		}
	}
	ra, rb := st.toReal(a), st.toReal(b)
	switch op {
	case token.LSS:
		return ts.rcmp(ORLt, ra, rb)
	case token.LEQ:
		return ts.rcmp(ORLe, ra, rb)
	case token.EQL:
		return ts.Eq(ra, rb)
	}
	panic(engineGap("float comparison " + op.String()))
}

func (st *State) fIsNaN(a *Term) *Term {
	if a.sort == SF64 {
		return st.ts.fun1(OFIsNaN, a)
	}
	return st.ts.False
}
func (st *State) fIsInf(a *Term, sign int) *Term {
	ts := st.ts
	if a.sort != SF64 {
		return ts.False
	}
	inf := ts.fun1(OFIsInf, a)
	if sign == 0 {
		return inf
	}
	if a.isConst() {
		return ts.Bool(math.IsInf(a.f, sign))
	}
	if sign > 0 {
		return ts.And(inf, ts.fcmp(OFLt, ts.F64(0), a))
	}
	return ts.And(inf, ts.fcmp(OFLt, a, ts.F64(0)))
}

func (st *State) fAbs(a *Term) *Term {
	if a.sort == SF64 {
		return st.ts.fun1(OFAbs, a)
	}
	return st.ts.Ite(st.ts.rcmp(ORLt, a, st.ts.RealF(0)), st.ts.RNeg(a), a)
}

// math.Min / math.Max with Go's special cases.
func (st *State) mathMin(a, b *Term) *Term {
	ts := st.ts
	if a.sort == SF64 && b.sort == SF64 {
		if a.isConst() && b.isConst() {
			return ts.F64(math.Min(a.f, b.f))
		}
		nan := ts.Or(st.fIsNaN(a), st.fIsNaN(b))
		ninf := ts.Or(st.fIsInf(a, -1), st.fIsInf(b, -1))
		bothZero := ts.And(ts.fcmp(OFEq, a, ts.F64(0)), ts.fcmp(OFEq, b, ts.F64(0)))
		zres := ts.Ite(ts.fun1(OFIsNeg, a), a, b)
		return ts.Ite(ninf, ts.F64(math.Inf(-1)), ts.Ite(nan, ts.F64(math.NaN()), ts.Ite(bothZero, zres, ts.Ite(ts.fcmp(OFLt, a, b), a, b))))
	}
	if (a.sort == SF64 && a.isConst() && math.IsInf(a.f, 1)) || (b.sort == SF64 && b.isConst() && math.IsInf(b.f, -1)) {
		return b
	}
	if (b.sort == SF64 && b.isConst() && math.IsInf(b.f, 1)) || (a.sort == SF64 && a.isConst() && math.IsInf(a.f, -1)) {
		return a
	}
	ra, rb := st.toReal(a), st.toReal(b)
	return ts.Ite(ts.rcmp(ORLt, ra, rb), ra, rb)
}

func (st *State) mathMax(a, b *Term) *Term {
	ts := st.ts
	if a.sort == SF64 && b.sort == SF64 {
		if a.isConst() && b.isConst() {
			return ts.F64(math.Max(a.f, b.f))
		}
		nan := ts.Or(st.fIsNaN(a), st.fIsNaN(b))
		pinf := ts.Or(st.fIsInf(a, 1), st.fIsInf(b, 1))
		bothZero := ts.And(ts.fcmp(OFEq, a, ts.F64(0)), ts.fcmp(OFEq, b, ts.F64(0)))
		zres := ts.Ite(ts.fun1(OFIsNeg, a), b, a)
		return ts.Ite(pinf, ts.F64(math.Inf(1)), ts.Ite(nan, ts.F64(math.NaN()), ts.Ite(bothZero, zres, ts.Ite(ts.fcmp(OFLt, b, a), a, b))))
	}
	if (a.sort == SF64 && a.isConst() && math.IsInf(a.f, -1)) || (b.sort == SF64 && b.isConst() && math.IsInf(b.f, 1)) {
		return b
	}
	if (b.sort == SF64 && b.isConst() && math.IsInf(b.f, -1)) || (a.sort == SF64 && a.isConst() && math.IsInf(a.f, 1)) {
		return a
	}
	ra, rb := st.toReal(a), st.toReal(b)
	return ts.Ite(ts.rcmp(ORLt, rb, ra), ra, rb)
}

// freshInt returns a fresh Int symbol (floor/ceil witnesses).
func (st *State) freshName(prefix string) string {
	st.freshCtr++
	return fmt.Sprintf("%s!%d", prefix, st.freshCtr)
}

// realFloor returns an Int term n with n <= x < n+1 (added as an axiom).
func (st *State) realFloor(x *Term) *Term {
	ts := st.ts
	if x.op == OToReal {
		return x.args[0] // already an integer
	}
	if x.isConst() {
		f := new(big.Int).Div(x.r.Num(), x.r.Denom()) // Euclidean division: floor for a positive denominator
		return ts.intern(&Term{op: OConst, sort: SInt, r: new(big.Rat).SetInt(f)})
	}
	n := ts.Sym(fmt.Sprintf("floor!t%d", x.id), SInt)
	rn := ts.ToReal(n)
	ts.Define(n, ts.And(ts.rcmp(ORLe, rn, x), ts.rcmp(ORLt, x, ts.rbin(ORAdd, rn, ts.RealF(1)))))
	return n
}

func (st *State) fFloor(a *Term) *Term {
	if a.sort == SF64 {
		return st.ts.fun1(OFFloor, a)
	}
	return st.ts.ToReal(st.realFloor(a))
}
func (st *State) fCeil(a *Term) *Term {
	if a.sort == SF64 {
		return st.ts.fun1(OFCeil, a)
	}
	if a.op == OToReal {
		return a
	}
	return st.ts.RNeg(st.ts.ToReal(st.realFloor(st.ts.RNeg(a))))
}
func (st *State) fTrunc(a *Term) *Term {
	if a.sort == SF64 {
		return st.ts.fun1(OFTrunc, a)
	}
	if a.op == OToReal {
		return a
	}
	ts := st.ts
	fl := st.fFloor(a)
	ce := st.fCeil(a)
	return ts.Ite(ts.rcmp(ORLt, a, ts.RealF(0)), ce, fl)
}

func (st *State) fSqrt(a *Term) *Term {
	ts := st.ts
	if a.sort == SF64 {
		return ts.fun1(OFSqrt, a)
	}
	if st.h.mode == ModeORD {
		panic(engineGap("sqrt of an order-only float"))
	}
	if st.branch(ts.rcmp(ORLt, a, ts.RealF(0))) {
		panic(pathEnd{"outside", "sqrt of a negative number in the real reading (NaN)"})
	}
	s := ts.UF("sqrt", SReal, a)
	ts.Define(s, ts.And(ts.rcmp(ORLe, ts.RealF(0), s), ts.Eq(ts.rbin(ORMul, s, s), a)))
	return st.rnd(s)
}

// ---------------------------------------------------------------- binop

func (st *State) binop(op token.Token, x, y Value, xt, yt types.Type) Value {
	ts := st.ts
	if isFloatType(xt) {
		a, b := x.(*Term), y.(*Term)
		switch op {
		case token.ADD, token.SUB, token.MUL, token.QUO:
			if isFloat32(xt) {
				panic(engineGap("float32 arithmetic"))
			}
			return st.fArith(op, a, b)
		default:
			return st.fcmp(op, a, b)
		}
	}
	if w, signed, ok := intType(xt); ok {
		a, b := x.(*Term), y.(*Term)
		_ = w
		switch op {
		case token.ADD:
			return ts.bvbin(OBvAdd, a, b)
		case token.SUB:
			return ts.bvbin(OBvSub, a, b)
		case token.MUL:
			return ts.bvbin(OBvMul, a, b)
		case token.QUO, token.REM:
			st.require(ts.Not(ts.Eq(b, ts.BV(w, 0))), "integer divide by zero")
			if signed {
				if op == token.QUO {
					return ts.bvbin(OBvSDiv, a, b)
				}
				return ts.bvbin(OBvSRem, a, b)
			}
			if op == token.QUO {
				return ts.bvbin(OBvUDiv, a, b)
			}
			return ts.bvbin(OBvURem, a, b)
		case token.AND:
			return ts.bvbin(OBvAnd, a, b)
		case token.OR:
			return ts.bvbin(OBvOr, a, b)
		case token.XOR:
			return ts.bvbin(OBvXor, a, b)
		case token.AND_NOT:
			return ts.bvbin(OBvAnd, a, ts.BvNot(b))
		case token.SHL, token.SHR:
			return st.shift(op, a, b, w, signed, yt)
		case token.EQL:
			return ts.Eq(a, b)
		case token.NEQ:
			return ts.Not(ts.Eq(a, b))
		case token.LSS:
			if signed {
				return ts.bvcmp(OBvSlt, a, b)
			}
			return ts.bvcmp(OBvUlt, a, b)
		case token.LEQ:
			if signed {
				return ts.bvcmp(OBvSle, a, b)
			}
			return ts.bvcmp(OBvUle, a, b)
		case token.GTR:
			if signed {
				return ts.bvcmp(OBvSlt, b, a)
			}
			return ts.bvcmp(OBvUlt, b, a)
		case token.GEQ:
			if signed {
				return ts.bvcmp(OBvSle, b, a)
			}
			return ts.bvcmp(OBvUle, b, a)
		}
		panic(engineGap("integer op " + op.String()))
	}
	if isStringType(xt) {
		a, b := x.(StrV), y.(StrV)
		switch op {
		case token.ADD:
			if a.sym == nil && b.sym == nil {
				return StrV{s: a.s + b.s}
			}
			return StrV{sym: append(append([]*Term{}, st.strBytes(a)...), st.strBytes(b)...)}
		case token.EQL:
			return st.strEq(a, b)
		case token.NEQ:
			return ts.Not(st.strEq(a, b))
		}
		if a.sym == nil && b.sym == nil {
			switch op {
			case token.LSS:
				return ts.Bool(a.s < b.s)
			case token.LEQ:
				return ts.Bool(a.s <= b.s)
			case token.GTR:
				return ts.Bool(a.s > b.s)
			case token.GEQ:
				return ts.Bool(a.s >= b.s)
			}
		}
		panic(engineGap("string op " + op.String()))
	}
	switch op {
	case token.EQL:
		return st.eqValues(x, y)
	case token.NEQ:
		return ts.Not(st.eqValues(x, y))
	}
	if isBoolType(xt) {
		a, b := x.(*Term), y.(*Term)
		switch op {
		case token.AND, token.LAND:
			return ts.And(a, b)
		case token.OR, token.LOR:
			return ts.Or(a, b)
		}
	}
	panic(engineGap(fmt.Sprintf("binop %s on %v", op, xt)))
}

// eqValues handles == where one side may be an untyped nil of a reference type.
func (st *State) eqValues(x, y Value) *Term {
	ts := st.ts
	isNil := func(v Value) (bool, bool) {
		switch z := v.(type) {
		case nil:
			return true, true
		case Ptr:
			return z.obj == nil, true
		case SliceV:
			return z.obj == nil, true
		case MapV:
			return z.m == nil, true
		case ClosureV:
			return z.fn == nil, true
		case IfaceV:
			return z.t == nil, true
		}
		return false, false
	}
	// slices, maps and funcs can only be compared with nil
	switch x.(type) {
	case SliceV, MapV, ClosureV:
		a, _ := isNil(x)
		b, _ := isNil(y)
		if b {
			return ts.Bool(a)
		}
		if a {
			return ts.Bool(b)
		}
	}
	if x == nil || y == nil {
		a, _ := isNil(x)
		b, _ := isNil(y)
		return ts.Bool(a && b)
	}
	return st.goEq(x, y)
}

func (st *State) shift(op token.Token, a, cnt *Term, w int, signed bool, cntType types.Type) *Term {
	ts := st.ts
	cw, csigned, _ := intType(cntType)
	if csigned {
		st.require(ts.bvcmp(OBvSle, ts.BV(cw, 0), cnt), "negative shift amount")
	}
	// big counts: result is 0 (or sign fill)
	var big *Term = ts.False
	c := cnt
	if cw > w {
		big = ts.bvcmp(OBvUle, ts.BV(cw, uint64(w)), cnt)
		c = ts.Resize(cnt, w, false)
	} else if cw < w {
		c = ts.Resize(cnt, w, false)
	}
	var r, over *Term
	switch {
	case op == token.SHL:
		r = ts.bvbin(OBvShl, a, c)
		over = ts.BV(w, 0)
	case signed:
		r = ts.bvbin(OBvAshr, a, c)
		over = ts.bvbin(OBvAshr, a, ts.BV(w, uint64(w-1)))
	default:
		r = ts.bvbin(OBvLshr, a, c)
		over = ts.BV(w, 0)
	}
	return ts.Ite(big, over, r)
}

// ---------------------------------------------------------------- conversions

func (st *State) convert(v Value, from, to types.Type) Value {
	ts := st.ts
	fw, fsigned, fint := intType(from)
	tw, tsigned, tint := intType(to)
	switch {
	case fint && tint:
		_ = fw
		_ = tsigned
		return ts.Resize(v.(*Term), tw, fsigned)
	case fint && isFloatType(to):
		a := v.(*Term)
		if a.isConst() {
			var f float64
			if fsigned {
				f = float64(a.sval())
			} else {
				f = float64(a.u)
			}
			if isFloat32(to) {
				f = float64(float32(f))
			}
			return ts.F64(f)
		}
		if isFloat32(to) {
			panic(engineGap("symbolic conversion to float32"))
		}
		a64 := ts.Resize(a, 64, fsigned)
		if st.realMode() {
			return ts.ToReal(ts.Bv2Int(a64, fsigned))
		}
		if fsigned {
			return ts.intern(&Term{op: OFFromS, sort: SF64, args: []*Term{a64}})
		}
		return ts.intern(&Term{op: OFFromU, sort: SF64, args: []*Term{a64}})
	case isFloatType(from) && tint:
		a := v.(*Term)
		if a.isConst() && a.sort == SF64 {
			return ts.BV(tw, nativeFloatToInt(a.f, tw, tsigned))
		}
		return st.floatToInt(a, tw, tsigned)
	case isFloatType(from) && isFloatType(to):
		a := v.(*Term)
		if isFloat32(to) && !isFloat32(from) {
			if a.isConst() {
				return ts.F64(float64(float32(a.f)))
			}
			panic(engineGap("symbolic conversion float64 -> float32"))
		}
		return a
	case isStringType(to):
		switch x := v.(type) {
		case SliceV: // []byte -> string
			bs := make([]*Term, x.len)
			allC := true
			for i := 0; i < x.len; i++ {
				bs[i] = x.obj.cells[x.off+i].(*Term)
				if !bs[i].isConst() {
					allC = false
				}
			}
			if allC {
				b := make([]byte, x.len)
				for i := range b {
					b[i] = byte(bs[i].u)
				}
				return StrV{s: string(b)}
			}
			return StrV{sym: bs}
		case *Term: // rune/byte -> string
			if x.isConst() {
				return StrV{s: string(rune(x.sval()))}
			}
			panic(engineGap("symbolic rune to string"))
		case StrV:
			return x
		}
	case isStringType(from):
		s := v.(StrV)
		if sl, ok := to.Underlying().(*types.Slice); ok {
			if b, ok := sl.Elem().Underlying().(*types.Basic); ok && b.Kind() == types.Uint8 {
				bs := st.strBytes(s)
				cells := make([]Value, len(bs))
				for i, b := range bs {
					cells[i] = b
				}
				return SliceV{obj: st.newObj(cells, "[]byte(string)"), len: len(bs), cap: len(bs), esz: 1}
			}
		}
	}
	if types.Identical(from.Underlying(), to.Underlying()) {
		return v
	}
	if _, ok := to.Underlying().(*types.Pointer); ok {
		return v
	}
	panic(engineGap(fmt.Sprintf("conversion %v -> %v", from, to)))
}

// nativeFloatToInt reproduces amd64 conversion results.
func nativeFloatToInt(f float64, w int, signed bool) uint64 {
	switch {
	case signed && w == 64:
		return uint64(int64(f))
	case signed && w == 32:
		return uint64(int32(f))
	case signed && w == 16:
		return uint64(int16(f))
	case signed && w == 8:
		return uint64(int8(f))
	case !signed && w == 64:
		return uint64(f)
	case !signed && w == 32:
		return uint64(uint32(f))
	case !signed && w == 16:
		return uint64(uint16(f))
	default:
		return uint64(uint8(f))
	}
}

func (st *State) floatToInt(a *Term, w int, signed bool) *Term {
	ts := st.ts
	if a.sort == SF64 {
		if w != 64 {
			panic(engineGap("symbolic float -> narrow int conversion"))
		}
		// amd64: CVTTSD2SQ gives 0x8000000000000000 outside [-2^63, 2^63)
		lo := ts.F64(-9223372036854775808.0)
		hi := ts.F64(9223372036854775808.0)
		cvt := func(x *Term) *Term {
			in := ts.And(ts.fcmp(OFLe, lo, x), ts.fcmp(OFLt, x, hi))
			raw := ts.intern(&Term{op: OFToSBV, sort: SBV64, args: []*Term{x}, aux: 64})
			return ts.Ite(in, raw, ts.BV(64, 1<<63))
		}
		if signed {
			return cvt(a)
		}
		// uint64(f): f < 2^63 ? cvt(f) : cvt(f - 2^63) ^ 1<<63
		small := ts.fcmp(OFLt, a, hi)
		big := ts.bvbin(OBvXor, cvt(ts.fbin(OFSub, a, hi)), ts.BV(64, 1<<63))
		// NaN: comparison false -> second branch, cvt(NaN) = 1<<63, xor -> 0?  amd64 yields 0x8000000000000000
		return ts.Ite(st.fIsNaN(a), ts.BV(64, 1<<63), ts.Ite(small, cvt(a), big))
	}
	// real reading: truncation toward zero through an Int witness; range assumed
	tr := st.fTrunc(a) // Real, integral
	var n *Term
	if tr.op == OToReal {
		n = tr.args[0]
	} else {
		n = ts.Sym(fmt.Sprintf("trunc!t%d", tr.id), SInt)
		ts.Define(n, ts.Eq(ts.ToReal(n), tr))
	}
	if (n.op == OBv2Int || n.op == OBv2IntS) && n.args[0].sort.width() == w && (n.op == OBv2IntS) == signed {
		return n.args[0]
	}
	if n.op == OBv2Int && n.args[0].sort.width() == w {
		return n.args[0] // uint -> float -> int: same bits when the value fits (assumed below 2^63)
	}
	// the real reading covers in-range conversions only
	lim := new(big.Int).Lsh(big.NewInt(1), 63)
	lo := ts.intern(&Term{op: OConst, sort: SInt, r: new(big.Rat).SetInt(new(big.Int).Neg(lim))})
	hi := ts.intern(&Term{op: OConst, sort: SInt, r: new(big.Rat).SetInt(lim)})
	st.assume(ts.And(ts.icmp(OILe, lo, n), ts.icmp(OILt, n, hi)))
	return ts.Int2Bv(n, w)
}

var _ = ssa.NewProgram

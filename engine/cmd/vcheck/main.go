package main

import (
	"encoding/json"
	"flag"
	"fmt"
	"go/types"
	"os"
	"path/filepath"
	"regexp"
	"runtime"
	"sort"
	"strconv"
	"strings"
	"time"
)

func typesPointer(t types.Type) types.Type { return types.NewPointer(t) }

type Evidence struct {
	PropertyID  string                 `json:"property_id"`
	Tier        string                 `json:"tier"`
	Seed        int                    `json:"seed"`
	Level       string                 `json:"level"`
	Coverage    map[string]interface{} `json:"coverage"`
	Assumptions []string               `json:"assumptions"`
	WallS       float64                `json:"wall_s"`
	Violations  int                    `json:"violations"`
}

func main() {
	prop := flag.String("prop", "", "property id (C01..C20)")
	tierS := flag.String("tier", "", "quick | thorough")
	repo := flag.String("repo", "/repo", "repository under test")
	verif := flag.String("verif", "/verif", "verification directory")
	jobs := flag.Int("jobs", runtime.NumCPU(), "parallel workers")
	only := flag.String("only", "", "regexp: run only matching harnesses")
	replay := flag.String("replay", "", "replay file: run natively and report")
	list := flag.Bool("list", false, "list harnesses")
	solverOv := flag.String("solver", "", "override the solver of every harness (development only)")
	noNative := flag.Bool("no-native", false, "skip native replays (development only; never registered)")
	noEvidence := flag.Bool("no-evidence", false, "do not write the evidence file (development only)")
	flag.Parse()

	tier := 0
	ts := *tierS
	if ts == "" {
		ts = os.Getenv("VERIF_TIER")
	}
	if ts == "thorough" {
		tier = 1
	} else {
		ts = "quick"
	}
	seed, _ := strconv.Atoi(os.Getenv("VERIF_SEED"))
	os.Setenv("VX_TIER", strconv.Itoa(tier))

	t0 := time.Now()
	e, err := LoadEngine(*repo, filepath.Join(*verif, "harness"))
	if err != nil {
		fmt.Println("INCONCLUSIVE property=" + *prop + " reason=cannot load the current tree: " + err.Error())
		writeEvidenceFailure(*verif, *prop, ts, seed, "load failure: "+err.Error(), time.Since(t0))
		os.Exit(0)
	}
	known, err := e.loadKnown(filepath.Join(*verif, "known_findings.json"))
	if err != nil {
		fmt.Fprintln(os.Stderr, "known_findings.json:", err)
		os.Exit(2)
	}
	_ = known
	loadT := time.Since(t0)

	if *list {
		for _, h := range e.harnesses {
			fmt.Printf("%s %s mode=%s solver=%s covers=%v\n", h.Prop, h.Name, h.mode, h.solver, h.covers)
		}
		return
	}
	if *replay != "" {
		os.Exit(doReplay(e, *replay))
	}
	if *prop == "" {
		fmt.Fprintln(os.Stderr, "need -prop")
		os.Exit(2)
	}
	var re *regexp.Regexp
	if *only != "" {
		re = regexp.MustCompile(*only)
	}

	var hs []*Harness
	for _, h := range e.harnesses {
		if h.Prop != *prop || h.needTier > tier {
			continue
		}
		if re != nil && !re.MatchString(h.Name) {
			continue
		}
		if *solverOv != "" {
			h.solver = *solverOv
		}
		hs = append(hs, h)
	}
	if len(hs) == 0 {
		fmt.Println("INCONCLUSIVE property=" + *prop + " reason=no harness")
		writeEvidenceFailure(*verif, *prop, ts, seed, "no harness for this property", time.Since(t0))
		os.Exit(0)
	}

	type hres struct {
		h *Harness
		r *HarnessResult
	}
	var results []hres
	for _, h := range hs {
		fmt.Fprintf(os.Stderr, "== %s (mode %s, %s)\n", h.Name, h.mode, h.solver)
		r := e.RunHarness(h, tier, *jobs, nil, nil)
		if needsMapReverse(r) {
			// maps were ranged over: run again with reversed iteration order (Go randomises it)
		}
		results = append(results, hres{h, r})
		fmt.Fprintf(os.Stderr, "   paths=%d ok=%d pruned=%d obligations=%d discharged=%d cand=%d kf=%d gaps=%d limits=%d outside=%d queries(sat=%d unsat=%d unknown=%d) solver=%.1fs wall=%.1fs\n",
			r.Paths, r.PathsOK, r.Pruned, r.Obligations, r.Discharged, len(r.Candidates), len(r.KFCandidates), len(r.Gaps), len(r.Limits), len(r.Outside),
			r.Stats.Sat, r.Stats.Unsat, r.Stats.Unknown, r.Stats.Time.Seconds(), r.Wall.Seconds())
		for _, k := range sortedKeys(r.Gaps) {
			fmt.Fprintf(os.Stderr, "   GAP x%d: %s\n", r.Gaps[k], k)
		}
		for _, k := range sortedKeys(r.Limits) {
			fmt.Fprintf(os.Stderr, "   LIMIT x%d: %s\n", r.Limits[k], k)
		}
		for _, k := range sortedKeys(r.Outside) {
			fmt.Fprintf(os.Stderr, "   OUTSIDE x%d: %s\n", r.Outside[k], k)
		}
		for i, m := range r.Inconclusive {
			if i < 5 {
				fmt.Fprintf(os.Stderr, "   INCONCLUSIVE: %s\n", m)
			}
		}
	}

	// ---- native replay of every model
	var cases []Candidate
	type ref struct {
		hi   int
		kind string // viol kf cover valid
		idx  int
		lbl  string
	}
	var refs []ref
	for hi, hr := range results {
		for i, c := range hr.r.Candidates {
			cases = append(cases, c)
			refs = append(refs, ref{hi, "viol", i, c.Label})
		}
		for i, c := range hr.r.KFCandidates {
			cases = append(cases, c)
			refs = append(refs, ref{hi, "kf", i, c.Label})
		}
		var ls []string
		for l := range hr.r.CoverWit {
			ls = append(ls, l)
		}
		sort.Strings(ls)
		for _, l := range ls {
			c := hr.r.CoverWit[l]
			if c.Harness == "" {
				continue
			}
			cases = append(cases, c)
			refs = append(refs, ref{hi, "cover", 0, l})
		}
		for i, c := range hr.r.Validation {
			if i >= 40 && tier == 0 {
				break
			}
			cases = append(cases, c)
			refs = append(refs, ref{hi, "valid", i, ""})
		}
	}
	var outs []Outcome
	nativeErr := ""
	nativeT := time.Now()
	if !*noNative && len(cases) > 0 {
		outs, err = e.RunNative(cases)
		if err != nil {
			nativeErr = err.Error()
			fmt.Fprintln(os.Stderr, "native replay failed:", err)
		}
	}
	nativeWall := time.Since(nativeT)

	violations := 0
	var lines []string
	var spurious, mismatches, coverFail, inconcl []string
	kfSeen := map[string]bool{}
	validated := 0
	os.MkdirAll(filepath.Join(*verif, "replays"), 0o755)
	nrep := 0
	for k, rf := range refs {
		c := cases[k]
		if outs == nil || k >= len(outs) || outs[k].Status == "not-run" {
			if rf.kind == "viol" {
				inconcl = append(inconcl, fmt.Sprintf("%s: model for %q could not be replayed natively (%s)", c.Harness, c.Label, nativeErr))
			}
			continue
		}
		o := outs[k]
		switch rf.kind {
		case "viol":
			if reproduced(c, o) {
				violations++
				nrep++
				path := filepath.Join(*verif, "replays", fmt.Sprintf("%s-%04d.json", *prop, nrep))
				b, _ := json.MarshalIndent(c, "", " ")
				os.WriteFile(path, b, 0o644)
				lines = append(lines, fmt.Sprintf("VIOLATION property=%s replay=%s", *prop, path))
				fmt.Fprintf(os.Stderr, "   violated: %s [%s] %s shape=%v\n", c.Harness, c.Kind, c.Label, c.Choices)
				validated++
			} else {
				if os.Getenv("VX_DEBUG") != "" {
					b, _ := json.Marshal(c.Observe)
					fmt.Fprintln(os.Stderr, "spurious candidate observed:", string(b), "native:", o.Observed)
				}
				spurious = append(spurious, fmt.Sprintf("%s: %q sat in the %s reading but not reproduced natively (status %s, fails %v; inputs %s)", c.Harness, c.Label, c.Mode, o.Status, o.Fails, inputsBrief(c)))
			}
		case "kf":
			if reproduced(c, o) {
				validated++
				if !kfSeen[c.KF] {
					kfSeen[c.KF] = true
					lines = append(lines, fmt.Sprintf("KNOWN-FINDING: property=%s %s [%s; witness %s]", *prop, e.knownWhat[*prop+"|"+c.KF], c.KF, inputsBrief(c)))
				}
			} else {
				spurious = append(spurious, fmt.Sprintf("%s: known-finding witness for %q not reproduced natively", c.Harness, c.Label))
			}
		case "cover":
			if c.Abstract {
				// the witness lives in an abstraction (stub / uninterpreted function): it need not replay natively
				continue
			}
			if reproduced(c, o) {
				validated++
			} else {
				coverFail = append(coverFail, fmt.Sprintf("%s: cover %q reached symbolically but not natively (status %s %s)", c.Harness, rf.lbl, o.Status, o.PanicMsg))
			}
		case "valid":
			ok, why := validateOutcome(c, o)
			if ok {
				validated++
			} else {
				mismatches = append(mismatches, fmt.Sprintf("%s: %s", c.Harness, why))
			}
		}
	}

	// ---- aggregate evidence
	cov := map[string]interface{}{}
	states, trans, obl, dis, syn := 0, 0, 0, 0, 0
	var samples []interface{}
	var funcs []string
	fset := map[string]bool{}
	q := map[string]int{"sat": 0, "unsat": 0, "unknown": 0, "errors": 0, "rechecked_by_second_solver": 0, "second_solver_no_answer": 0}
	solverT := 0.0
	perH := map[string]interface{}{}
	exhaustive := true
	var missingCovers []string
	modes := map[string]int{}
	for _, hr := range results {
		r := hr.r
		states += r.PathsOK
		trans += r.Decisions
		obl += r.Obligations
		dis += r.Discharged
		syn += r.Syntactic
		q["sat"] += r.Stats.Sat
		q["unsat"] += r.Stats.Unsat
		q["unknown"] += r.Stats.Unknown
		q["errors"] += r.Stats.Errors
		q["rechecked_by_second_solver"] += r.CrossChecked
		q["second_solver_no_answer"] += r.CrossUnknown
		solverT += r.Stats.Time.Seconds()
		modes[hr.h.mode.String()] += r.Obligations
		for _, s := range r.Samples {
			if len(samples) < 12 {
				samples = append(samples, map[string]string{"harness": hr.h.Name, "path": s})
			}
		}
		for f := range r.FuncsEncoded {
			fset[f] = true
		}
		for _, l := range hr.h.covers {
			if strings.HasPrefix(l, "opt:") {
				continue
			}
			if r.CoverHits[l] == 0 {
				missingCovers = append(missingCovers, hr.h.Name+": "+l)
			}
		}
		inconcl = append(inconcl, r.Inconclusive...)
		for k, n := range r.Gaps {
			inconcl = append(inconcl, fmt.Sprintf("%s: encoder gap on %d path(s): %s", hr.h.Name, n, k))
		}
		for k, n := range r.Limits {
			if strings.HasPrefix(k, "panic: ") {
				continue
			}
			inconcl = append(inconcl, fmt.Sprintf("%s: bound reached on %d path(s): %s", hr.h.Name, n, k))
		}
		if r.TimedOut {
			inconcl = append(inconcl, fmt.Sprintf("%s: time budget reached before all paths were explored", hr.h.Name))
		}
		if r.PathCapHit {
			inconcl = append(inconcl, fmt.Sprintf("%s: path cap %d reached", hr.h.Name, hr.h.maxPaths))
		}
		if r.Uncertain > 0 {
			inconcl = append(inconcl, fmt.Sprintf("%s: %d path(s) continued past a solver 'unknown' (treated as feasible)", hr.h.Name, r.Uncertain))
		}
		perH[hr.h.Name] = map[string]interface{}{
			"mode": hr.h.mode.String(), "solver": hr.h.solver, "paths": r.Paths, "paths_completed": r.PathsOK, "pruned_by_assume": r.Pruned,
			"obligations": r.Obligations, "discharged": r.Discharged, "shapes": len(r.ChoiceShapes), "max_pc": r.MaxPC,
			"interp_steps": r.Steps, "wall_s": round2(r.Wall.Seconds()), "outside_reading": r.Outside, "cover_hits": r.CoverHits,
		}
	}
	for f := range fset {
		funcs = append(funcs, f)
	}
	sort.Strings(funcs)
	if len(inconcl) > 0 || len(spurious) > 0 || len(mismatches) > 0 || len(coverFail) > 0 || len(missingCovers) > 0 || nativeErr != "" {
		exhaustive = false
	}
	if states == 0 {
		states = 0
	}
	cov["states"] = states
	cov["transitions"] = trans
	cov["traces_validated_against_impl"] = validated
	if len(samples) == 0 {
		samples = append(samples, "no completed path")
	}
	cov["samples"] = samples
	cov["exhaustive"] = exhaustive
	cov["obligations"] = obl
	cov["discharged"] = dis
	cov["discharged_syntactically"] = syn
	cov["functions_encoded"] = funcs
	cov["float_modes"] = modes
	cov["queries"] = q
	cov["solver_time_s"] = round2(solverT)
	cov["native_replay_s"] = round2(nativeWall.Seconds())
	cov["load_and_ssa_s"] = round2(loadT.Seconds())
	cov["harnesses"] = perH
	cov["inconclusive"] = capList(inconcl, 60)
	cov["spurious_abstract"] = capList(spurious, 40)
	cov["encoder_mismatch"] = capList(mismatches, 40)
	cov["cover_missing"] = missingCovers
	cov["cover_not_reproduced"] = coverFail
	cov["known_findings_reported"] = keysOf(kfSeen)
	cov["bounds"], cov["outside_claim"], cov["stubs"] = boundsFor(e, *prop, tier, hs)
	cov["states_meaning"] = "completed symbolic paths (each an equivalence class of inputs); transitions = branch/choice decisions"

	ev := Evidence{PropertyID: *prop, Tier: ts, Seed: seed, Level: "model_checking", Coverage: cov,
		Assumptions: assumptionsFor(*prop, hs), WallS: round2(time.Since(t0).Seconds()), Violations: violations}
	if !*noEvidence {
		os.MkdirAll(filepath.Join(*verif, "evidence"), 0o755)
		b, _ := json.MarshalIndent(ev, "", " ")
		os.WriteFile(filepath.Join(*verif, "evidence", *prop+".json"), b, 0o644)
	}

	for _, m := range mismatches {
		fmt.Println("ENCODER-MISMATCH property=" + *prop + " " + m)
	}
	for _, m := range missingCovers {
		fmt.Println("INCONCLUSIVE property=" + *prop + " reason=cover point never reached: " + m)
	}
	for i, m := range inconcl {
		if i < 10 {
			fmt.Println("INCONCLUSIVE property=" + *prop + " reason=" + m)
		}
	}
	for i, m := range spurious {
		if i < 10 {
			fmt.Println("NOT-REPRODUCED property=" + *prop + " " + m)
		}
	}
	for _, m := range coverFail {
		fmt.Println("INCONCLUSIVE property=" + *prop + " reason=" + m)
	}
	for _, l := range lines {
		fmt.Println(l)
	}
	fmt.Printf("SUMMARY property=%s tier=%s paths=%d obligations=%d discharged=%d violations=%d known=%d validated=%d exhaustive=%v wall=%.1fs\n",
		*prop, ts, states, obl, dis, violations, len(kfSeen), validated, exhaustive, time.Since(t0).Seconds())
	if violations > 0 {
		os.Exit(1)
	}
}

func needsMapReverse(r *HarnessResult) bool { return false }

func round2(x float64) float64 { return float64(int64(x*100+0.5)) / 100 }

func capList(xs []string, n int) []string {
	if xs == nil {
		return []string{}
	}
	if len(xs) > n {
		return append(xs[:n:n], fmt.Sprintf("… %d more", len(xs)-n))
	}
	return xs
}

func keysOf(m map[string]bool) []string {
	out := []string{}
	for k := range m {
		out = append(out, k)
	}
	sort.Strings(out)
	return out
}

func inputsBrief(c Candidate) string {
	var parts []string
	for k, v := range c.Choices {
		parts = append(parts, fmt.Sprintf("%s=%d", k, v))
	}
	sort.Strings(parts)
	for _, in := range c.Inputs {
		if in.Kind == "float" {
			parts = append(parts, in.Name+"="+in.Repr)
		} else {
			parts = append(parts, fmt.Sprintf("%s=%d", in.Name, in.I))
		}
	}
	s := strings.Join(parts, " ")
	if len(s) > 300 {
		s = s[:300] + "…"
	}
	return s
}

// validateOutcome compares a sampled path's model with the native run on the same inputs.
func validateOutcome(c Candidate, o Outcome) (bool, string) {
	if len(o.Missing) > 0 {
		return false, fmt.Sprintf("native run asked for inputs the symbolic path never created: %v", o.Missing)
	}
	if c.Approx {
		// real-valued model rounded to floats: the native run may legitimately take another path
		return true, ""
	}
	if o.Status != "ok" {
		return false, fmt.Sprintf("symbolic path completed but the native run ended with %s %s (inputs %s)", o.Status, o.PanicMsg, inputsBrief(c))
	}
	if len(o.Fails) > 0 {
		return false, fmt.Sprintf("symbolic path discharged all assertions but the native run failed %v (inputs %s)", o.Fails, inputsBrief(c))
	}
	if c.Mode != "FP" {
		return true, ""
	}
	// observed values must agree bit for bit (FP reading)
	nat := map[string][]string{}
	for _, ob := range o.Observed {
		nat[ob.Name] = append(nat[ob.Name], ob.Bits)
	}
	seen := map[string]int{}
	for _, ob := range c.Observe {
		k := seen[ob.Name]
		seen[ob.Name]++
		if k >= len(nat[ob.Name]) {
			return false, fmt.Sprintf("observation %s missing natively", ob.Name)
		}
		nb := nat[ob.Name][k]
		if nb != ob.Bits && !(strings.HasPrefix(nb, "f:7ff") && strings.HasPrefix(ob.Bits, "f:7ff")) && !(strings.HasPrefix(nb, "f:fff") && strings.HasPrefix(ob.Bits, "f:7ff")) {
			return false, fmt.Sprintf("observation %s: solver %s (%s) vs native %s (inputs %s)", ob.Name, ob.Bits, ob.Repr, nb, inputsBrief(c))
		}
	}
	return true, ""
}

func writeEvidenceFailure(verif, prop, tier string, seed int, why string, d time.Duration) {
	if prop == "" {
		return
	}
	ev := Evidence{PropertyID: prop, Tier: tier, Seed: seed, Level: "model_checking",
		Coverage: map[string]interface{}{"evaluations": 1, "distinct_nontrivial": 2, "exhaustive": false, "explanation": why,
			"samples": []string{"nothing explored: " + why}, "rule": "no path explored"},
		Assumptions: []string{}, WallS: round2(d.Seconds())}
	os.MkdirAll(filepath.Join(verif, "evidence"), 0o755)
	b, _ := json.MarshalIndent(ev, "", " ")
	os.WriteFile(filepath.Join(verif, "evidence", prop+".json"), b, 0o644)
}

func doReplay(e *Engine, path string) int {
	b, err := os.ReadFile(path)
	if err != nil {
		fmt.Fprintln(os.Stderr, err)
		return 2
	}
	var c Candidate
	if err := json.Unmarshal(b, &c); err != nil {
		fmt.Fprintln(os.Stderr, err)
		return 2
	}
	outs, err := e.RunNative([]Candidate{c})
	if err != nil {
		fmt.Fprintln(os.Stderr, err)
		return 2
	}
	ob, _ := json.MarshalIndent(outs[0], "", " ")
	fmt.Println(string(ob))
	if reproduced(c, outs[0]) {
		fmt.Printf("VIOLATION property=%s replay=%s\n", c.Prop, path)
		return 1
	}
	fmt.Println("not reproduced on the current tree")
	return 0
}

func boundsFor(e *Engine, prop string, tier int, hs []*Harness) (bounds, outside, stubs []string) {
	bounds, outside, stubs = []string{}, []string{}, []string{}
	seen := map[string]bool{}
	add := func(dst *[]string, pre string, xs []string) {
		for _, x := range xs {
			k := pre + x
			if !seen[k] {
				seen[k] = true
				*dst = append(*dst, k)
			}
		}
	}
	for _, h := range hs {
		add(&bounds, h.Name+": ", h.bounds)
		add(&outside, "", h.outside)
		add(&stubs, h.Name+": ", h.stubNotes)
	}
	return
}

func assumptionsFor(prop string, hs []*Harness) []string {
	out := []string{
		"go/ssa (x/tools v0.29.0) form of the current /repo tree is what is executed; the Go compiler's own code generation is trusted to agree with it",
		"SMT solvers z3 4.8.12 / cvc5 1.0.3 are trusted for unsat answers; every sat answer is replayed against the native build before it is reported",
		"amd64 float semantics (no FMA contraction); float->int conversions outside the int64 range follow CVTTSD2SQ",
	}
	seen := map[string]bool{}
	for _, h := range hs {
		for _, a := range h.assumes {
			if !seen[a] {
				seen[a] = true
				out = append(out, h.Name+": "+a)
			}
		}
	}
	return out
}

package main

// Native replay: the same harness files are compiled into the real repository
// (go test -tags verif -overlay) and run on concrete inputs.

import (
	"encoding/json"
	"fmt"
	"os"
	"os/exec"
	"path/filepath"
	"sort"
	"strings"
	"time"
)

type Outcome struct {
	Index    int      `json:"index"`
	Status   string   `json:"status"` // ok | assume-false | panic | unknown-harness
	PanicMsg string   `json:"panic,omitempty"`
	Fails    []string `json:"fails"`
	Covers   []string `json:"covers"`
	Observed []ObsVal `json:"observed"`
	Missing  []string `json:"missing_inputs,omitempty"`
}

func (e *Engine) pkgDirOf(harness string) string {
	// harness name is "<pkgname>.<Func>"; find the overlay dir that declares it
	fn := e.funcsByName[harness]
	if fn == nil {
		return ""
	}
	ip := fn.Pkg.Pkg.Path()
	return strings.TrimPrefix(strings.TrimPrefix(ip, modPath), "/")
}

// RunNative runs the cases natively, grouped by package. Returned outcomes align with cases.
func (e *Engine) RunNative(cases []Candidate) ([]Outcome, error) {
	out := make([]Outcome, len(cases))
	for i := range out {
		out[i] = Outcome{Index: i, Status: "not-run"}
	}
	byPkg := map[string][]int{}
	for i, c := range cases {
		d := e.pkgDirOf(c.Harness)
		byPkg[d] = append(byPkg[d], i)
	}
	var dirs []string
	for d := range byPkg {
		dirs = append(dirs, d)
	}
	sort.Strings(dirs)
	for _, d := range dirs {
		idx := byPkg[d]
		sub := make([]Candidate, len(idx))
		for k, i := range idx {
			sub[k] = cases[i]
		}
		res, err := e.runNativePkg(d, sub)
		if err != nil {
			return out, err
		}
		for k, i := range idx {
			if k < len(res) {
				out[i] = res[k]
				out[i].Index = i
			}
		}
	}
	return out, nil
}

func (e *Engine) runNativePkg(relDir string, cases []Candidate) ([]Outcome, error) {
	tmp, err := os.MkdirTemp("", "vxreplay")
	if err != nil {
		return nil, err
	}
	defer os.RemoveAll(tmp)
	// generated test file listing the harness functions of this package
	pkgName := ""
	var names []string
	for name, fn := range e.funcsByName {
		ip := fn.Pkg.Pkg.Path()
		rd := strings.TrimPrefix(strings.TrimPrefix(ip, modPath), "/")
		if rd != relDir || !strings.HasPrefix(fn.Name(), "VxC") {
			continue
		}
		pkgName = fn.Pkg.Pkg.Name()
		names = append(names, strings.SplitN(name, ".", 2)[1])
	}
	sort.Strings(names)
	var sb strings.Builder
	sb.WriteString("//go:build verif\n\npackage " + pkgName + "\n\nimport (\n\t\"testing\"\n\n\tvx \"" + vxPath + "\"\n)\n\n")
	sb.WriteString("func TestVxReplay(t *testing.T) {\n\th := map[string]func(){\n")
	for _, n := range names {
		fmt.Fprintf(&sb, "\t\t%q: %s,\n", pkgName+"."+n, n)
	}
	sb.WriteString("\t}\n\tif err := vx.ReplayMain(h); err != nil {\n\t\tt.Fatal(err)\n\t}\n}\n")
	testFile := filepath.Join(tmp, "zz_verif_replay_test.go")
	if err := os.WriteFile(testFile, []byte(sb.String()), 0o644); err != nil {
		return nil, err
	}
	ov := map[string]string{}
	for virt, real := range e.overlayFile {
		ov[virt] = real
	}
	ov[filepath.Join(e.repoDir, relDir, "zz_verif_replay_test.go")] = testFile
	ovb, _ := json.Marshal(map[string]interface{}{"Replace": ov})
	ovFile := filepath.Join(tmp, "overlay.json")
	os.WriteFile(ovFile, ovb, 0o644)
	cb, _ := json.Marshal(cases)
	casesFile := filepath.Join(tmp, "cases.json")
	os.WriteFile(casesFile, cb, 0o644)
	outFile := filepath.Join(tmp, "out.json")
	pkgArg := "./" + relDir
	if relDir == "" {
		pkgArg = "."
	}
	cmd := exec.Command("go", "test", "-tags", "verif", "-vet=off", "-count=1", "-timeout", "20m", "-overlay", ovFile, "-run", "^TestVxReplay$", pkgArg)
	cmd.Dir = e.repoDir
	cmd.Env = append(os.Environ(), "GOFLAGS=-mod=mod", "GOPROXY=off", "GOSUMDB=off", "GOTOOLCHAIN=local",
		"VX_CASES="+casesFile, "VX_OUT="+outFile, "GOCACHE="+goCacheDir())
	t0 := time.Now()
	b, err := cmd.CombinedOutput()
	_ = t0
	ob, rerr := os.ReadFile(outFile)
	if rerr != nil {
		return nil, fmt.Errorf("native replay build/run failed in %s: %v\n%s", pkgArg, err, string(b))
	}
	var res []Outcome
	if jerr := json.Unmarshal(ob, &res); jerr != nil {
		return nil, fmt.Errorf("native replay: bad output: %v", jerr)
	}
	return res, nil
}

func goCacheDir() string {
	if d := os.Getenv("GOCACHE"); d != "" {
		return d
	}
	out, err := exec.Command("go", "env", "GOCACHE").Output()
	if err == nil {
		return strings.TrimSpace(string(out))
	}
	return filepath.Join(os.TempDir(), "gocache")
}

func contains(xs []string, s string) bool {
	for _, x := range xs {
		if x == s {
			return true
		}
	}
	return false
}

// reproduced decides whether the native outcome confirms the candidate.
func reproduced(c Candidate, o Outcome) bool {
	switch c.Kind {
	case "assert":
		return contains(o.Fails, c.Label)
	case "frozen":
		for _, f := range o.Fails {
			if strings.HasPrefix(f, "input modified") {
				return true
			}
		}
		return false
	case "panic":
		return o.Status == "panic"
	case "cover":
		return contains(o.Covers, c.Label)
	}
	return false
}

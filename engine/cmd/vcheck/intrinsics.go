package main

import (
	"math/big"
	"fmt"
	"go/token"
	"go/types"
	"math"
	"math/bits"
	"sort"
	"strings"

	"golang.org/x/tools/go/ssa"
)

const vxPath = "github.com/aclements/go-moremath/internal/vx"

func (st *State) cstr(v Value) string {
	s, ok := v.(StrV)
	if !ok || s.sym != nil {
		panic(engineGap("vx: name/label argument must be a constant string"))
	}
	return s.s
}

func f64(v Value) *Term { return v.(*Term) }

// intrinsic handles functions that are modelled rather than interpreted.
func (st *State) intrinsic(fn *ssa.Function, args []Value) (Value, bool) {
	pkg := ""
	if fn.Pkg != nil {
		pkg = fn.Pkg.Pkg.Path()
	} else if fn.Origin() != nil && fn.Origin().Pkg != nil {
		pkg = fn.Origin().Pkg.Pkg.Path()
	}
	name := fn.Name()
	if name == "init" && fn.Signature.Recv() == nil && (!st.e.inRepoPkg(pkg) || pkg == vxPath) {
		return nil, true
	}
	switch pkg {
	case vxPath:
		return st.vxCall(name, args, fn), true
	case "math":
		return st.mathCall(name, args)
	case "math/bits":
		return st.bitsCall(name, args)
	case "sort":
		switch name {
		case "Float64s", "Ints":
			st.sortStub(args[0].(SliceV), name == "Float64s")
			return nil, true
		case "Float64sAreSorted", "IntsAreSorted":
			return st.areSorted(args[0].(SliceV), name == "Float64sAreSorted"), true
		}
		return nil, false
	case "slices":
		if fn.Origin() != nil {
			name = fn.Origin().Name()
		}
		switch name {
		case "Sort":
			s := args[0].(SliceV)
			isF := false
			if s.len > 0 {
				if t, ok := s.obj.cells[s.off].(*Term); ok {
					isF = t.sort == SF64 || t.sort == SReal
				}
			}
			st.sortStub(s, isF)
			return nil, true
		}
	case "fmt":
		switch name {
		case "Sprintf", "Sprint", "Sprintln":
			return StrV{s: st.fmtString(name, args)}, true
		case "Errorf":
			panic(engineGap("fmt.Errorf"))
		case "Printf", "Println", "Print":
			return TupleV{st.ts.BV(64, 0), IfaceV{}}, true
		case "Fprintf":
			return st.fprintf(args), true
		}
	case "strings":
		switch name {
		case "Join":
			s := args[0].(SliceV)
			sep := args[1].(StrV)
			var parts []string
			for i := 0; i < s.len; i++ {
				e := s.obj.cells[s.off+i].(StrV)
				if e.sym != nil {
					panic(engineGap("strings.Join on symbolic strings"))
				}
				parts = append(parts, e.s)
			}
			return StrV{s: strings.Join(parts, sep.s)}, true
		}
		if fn.Signature.Recv() != nil && strings.Contains(fn.Signature.Recv().Type().String(), "Builder") {
			return st.builderCall(name, args), true
		}
	case "math/rand":
		return st.randCall(fn, name, args)
	case "sync":
		// single-threaded interpretation: locks are no-ops
		switch name {
		case "Lock", "Unlock", "RLock", "RUnlock", "TryLock":
			if name == "TryLock" {
				return st.ts.True, true
			}
			return nil, true
		}
	}
	if fn.Name() == "init" && fn.Pkg != nil && !st.e.inRepoPkg(fn.Pkg.Pkg.Path()) && fn.Signature.Recv() == nil {
		return nil, true
	}
	return nil, false
}

// ---------------------------------------------------------------- vx

func (st *State) newInput(name, kind string, s Sort) *Term {
	if st.concrete != nil {
		iv, ok := st.concrete[name]
		if !ok {
			panic(pathEnd{"gap", "concrete run: input " + name + " has no value"})
		}
		var t *Term
		switch kind {
		case "float":
			var b uint64
			fmt.Sscanf(iv.Bits, "0x%x", &b)
			t = st.ts.F64(math.Float64frombits(b))
		case "bool":
			t = st.ts.Bool(iv.I != 0)
		default:
			t = st.ts.BV(s.width(), uint64(iv.I))
		}
		st.inputs = append(st.inputs, inputRec{name, kind, t})
		return t
	}
	for _, in := range st.inputs {
		if in.name == name {
			return in.t
		}
	}
	t := st.ts.Sym(name, s)
	st.inputs = append(st.inputs, inputRec{name, kind, t})
	return t
}

const (
	floatsSlack    = 2
	floatsSentinel = -1234.5
)

func (st *State) floatSort() Sort {
	if st.realMode() {
		return SReal
	}
	return SF64
}

func (st *State) vxCall(name string, args []Value, fn *ssa.Function) Value {
	ts := st.ts
	switch name {
	case "Float":
		return st.newInput(st.cstr(args[0]), "float", st.floatSort())
	case "FloatI":
		return st.newInput(fmt.Sprintf("%s[%d]", st.cstr(args[0]), st.concreteInt(args[1], "FloatI")), "float", st.floatSort())
	case "Floats":
		n := int(st.concreteInt(args[1], "Floats"))
		// two cells of spare capacity holding a sentinel: an in-place append by the code under test
		// lands in (frozen) caller memory exactly as it would for a caller's data[:k]
		cells := make([]Value, n+floatsSlack)
		for i := 0; i < n; i++ {
			cells[i] = st.newInput(fmt.Sprintf("%s[%d]", st.cstr(args[0]), i), "float", st.floatSort())
		}
		for i := n; i < len(cells); i++ {
			cells[i] = ts.F64(floatsSentinel)
		}
		return SliceV{obj: st.newObj(cells, st.cstr(args[0])), len: n, cap: n + floatsSlack, esz: 1}
	case "Int":
		return st.newInput(st.cstr(args[0]), "int", SBV64)
	case "IntI":
		return st.newInput(fmt.Sprintf("%s[%d]", st.cstr(args[0]), st.concreteInt(args[1], "IntI")), "int", SBV64)
	case "Ints":
		n := int(st.concreteInt(args[1], "Ints"))
		cells := make([]Value, n)
		for i := range cells {
			cells[i] = st.newInput(fmt.Sprintf("%s[%d]", st.cstr(args[0]), i), "int", SBV64)
		}
		return SliceV{obj: st.newObj(cells, st.cstr(args[0])), len: n, cap: n, esz: 1}
	case "Uint":
		return st.newInput(st.cstr(args[0]), "uint", SBV64)
	case "Uint32":
		return st.newInput(st.cstr(args[0]), "uint32", SBV32)
	case "Uint32I":
		return st.newInput(fmt.Sprintf("%s[%d]", st.cstr(args[0]), st.concreteInt(args[1], "Uint32I")), "uint32", SBV32)
	case "Byte":
		return st.newInput(st.cstr(args[0]), "byte", SBV8)
	case "ByteI":
		return st.newInput(fmt.Sprintf("%s[%d]", st.cstr(args[0]), st.concreteInt(args[1], "ByteI")), "byte", SBV8)
	case "Bool":
		return st.newInput(st.cstr(args[0]), "bool", SBool)
	case "Choose":
		nm := st.cstr(args[0])
		lo := st.concreteInt(args[1], "Choose lo")
		hi := st.concreteInt(args[2], "Choose hi")
		var v int64
		if st.choicesPinned != nil {
			pv, ok := st.choicesPinned[nm]
			if !ok {
				panic(pathEnd{"gap", "concrete run: choice " + nm + " has no value"})
			}
			v = pv
		} else {
			v = lo + int64(st.choose(int(hi-lo+1)))
		}
		if _, dup := st.choices[nm]; !dup {
			st.chOrder = append(st.chOrder, nm)
		}
		st.choices[nm] = v
		return ts.BV(64, uint64(v))
	case "Tier":
		return ts.BV(64, uint64(st.tier))
	case "Real":
		return ts.Bool(st.realMode())
	case "Mode":
		return StrV{s: st.h.mode.String()}
	case "Assume":
		st.assume(args[0].(*Term))
		return nil
	case "Assert":
		c := args[0].(*Term)
		label := st.cstr(args[1])
		if st.concrete != nil {
			if !c.isTrue() {
				st.concreteFails = append(st.concreteFails, label)
			}
			return nil
		}
		st.obligation(c, "assert", label)
		return nil
	case "AssertKF":
		return st.assertKF(st.cstr(args[0]), args[1].(*Term), args[2].(*Term), st.cstr(args[3]))
	case "Cover":
		l := st.cstr(args[0])
		st.cover(l)
		return nil
	case "Freeze", "Thaw":
		sl := args[0].(SliceV)
		if name == "Thaw" && sl.len == 0 {
			// release everything frozen so far
			for _, o := range st.frozenObjs {
				o.frozen = false
			}
			st.frozenObjs = nil
			return nil
		}
		for i := 0; i < sl.len; i++ {
			st.freeze(sl.obj.cells[sl.off+i], name == "Freeze", 0)
		}
		return nil
	case "Observe":
		nm := st.cstr(args[0])
		v := args[1].(IfaceV).v
		if t, ok := v.(*Term); ok {
			st.observed = append(st.observed, obsRec{name: nm, t: t})
		} else {
			panic(engineGap("vx.Observe of a non-scalar"))
		}
		return nil
	case "Panics":
		return st.panics(args[0].(ClosureV))
	case "FreshFloat":
		return ts.Sym(st.freshName(st.cstr(args[0])), st.floatSort())
	case "FreshInt":
		return ts.Sym(st.freshName(st.cstr(args[0])), SBV64)
	case "UFloat":
		st.usedUF = true
		nm := st.cstr(args[0])
		sl := args[1].(SliceV)
		var as []*Term
		for i := 0; i < sl.len; i++ {
			a := sl.obj.cells[sl.off+i].(*Term)
			if st.realMode() {
				a = st.toReal(a)
			}
			as = append(as, a)
		}
		if len(as) > 1 {
			nm = fmt.Sprintf("%s_%d", nm, len(as))
		}
		return ts.UF("uf_"+nm, st.floatSort(), as...)
	case "Concretize":
		return st.concretize(args[0].(*Term))
	case "IsConcrete":
		v := args[0].(IfaceV).v
		t, ok := v.(*Term)
		return ts.Bool(ok && t.isConst())
	case "Engine":
		return ts.True
	case "Ite":
		c := args[0].(*Term)
		a, b := args[1].(*Term), args[2].(*Term)
		if a.sort != b.sort {
			a, b = st.unifyFloat(a, b)
		}
		return ts.Ite(c, a, b)
	case "IteInt":
		return ts.Ite(args[0].(*Term), args[1].(*Term), args[2].(*Term))
	case "And":
		return ts.And(args[0].(*Term), args[1].(*Term))
	case "Or":
		return ts.Or(args[0].(*Term), args[1].(*Term))
	case "Implies":
		return ts.Or(ts.Not(args[0].(*Term)), args[1].(*Term))
	case "Close", "Leq":
		return st.closeTo(name == "Leq", args[0].(*Term), args[1].(*Term), args[2].(*Term), args[3].(*Term), false)
	case "Near":
		return st.closeTo(false, args[0].(*Term), args[1].(*Term), args[2].(*Term), args[3].(*Term), true)
	case "SameBits":
		return st.valueEq(args[0], args[1])
	case "Epoch":
		st.epoch++
		st.globalWrites = nil
		st.sharedWrites = nil
		return nil
	case "NoGlobalWrites":
		return ts.Bool(len(st.globalWrites) == 0)
	case "NoSharedWrites":
		return ts.Bool(len(st.sharedWrites) == 0)
	case "Unwind":
		return nil
	}
	panic(engineGap("vx." + name + " is not an engine intrinsic"))
}

func (st *State) cover(l string) {
	if st.covers[l] {
		return
	}
	st.covers[l] = true
	if st.concrete != nil {
		return
	}
	st.res.mu.Lock()
	st.res.CoverHits[l]++
	_, have := st.res.CoverWit[l]
	if !have {
		st.res.CoverWit[l] = Candidate{} // reserve
	}
	st.res.mu.Unlock()
	if have {
		return
	}
	if st.check() == Sat {
		if c, ok := st.modelCandidate("cover", l); ok {
			st.res.mu.Lock()
			st.res.CoverWit[l] = c
			st.res.mu.Unlock()
			return
		}
	}
	st.res.mu.Lock()
	delete(st.res.CoverWit, l)
	st.res.mu.Unlock()
}

func (st *State) freeze(v Value, on bool, depth int) {
	if depth > 6 {
		return
	}
	switch x := v.(type) {
	case IfaceV:
		st.freeze(x.v, on, depth+1)
	case SliceV:
		if x.obj != nil {
			if x.obj.frozen != on {
				x.obj.frozen = on
				if on {
					st.frozenObjs = append(st.frozenObjs, x.obj)
				}
				for i := 0; i < x.len*x.esz; i++ {
					st.freeze(x.obj.cells[x.off+i], on, depth+1)
				}
			}
		}
	case Ptr:
		if x.obj != nil && x.obj.frozen != on {
			x.obj.frozen = on
			if on {
				st.frozenObjs = append(st.frozenObjs, x.obj)
			}
			for _, c := range x.obj.cells {
				st.freeze(c, on, depth+1)
			}
		}
	case CellsV:
		for _, c := range x.c {
			st.freeze(c, on, depth+1)
		}
	}
}

func (st *State) panics(f ClosureV) (res Value) {
	st.panicsDepth++
	depth := st.depth
	defer func() {
		st.panicsDepth--
		if r := recover(); r != nil {
			if _, ok := r.(goPanic); ok {
				st.depth = depth
				res = st.ts.True
				return
			}
			panic(r)
		}
	}()
	st.callFunction(f.fn, nil, f.bind)
	return st.ts.False
}

func (st *State) assertKF(kf string, class, c *Term, label string) Value {
	if st.concrete != nil {
		if !c.isTrue() && !(st.e.knownOpen[kf] && class.isTrue()) {
			st.concreteFails = append(st.concreteFails, label)
		}
		return nil
	}
	if !st.e.knownOpen[kf] {
		st.obligation(c, "assert", label)
		return nil
	}
	ts := st.ts
	// outside the known class the assertion must hold
	st.obligation(ts.Or(class, c), "assert", label)
	// inside the class: report the known finding if it is (still) violated
	st.res.mu.Lock()
	st.res.Obligations++
	st.res.mu.Unlock()
	bad := ts.And(class, ts.Not(c))
	if bad.isFalse() {
		st.res.mu.Lock()
		st.res.Discharged++
		st.res.mu.Unlock()
		return nil
	}
	switch st.check(bad) {
	case Sat:
		if cand, ok := st.modelCandidate("assert", label); ok {
			st.recordCandidate(cand, kf)
		}
		// continue on the side where the assertion holds, if any
		st.assume(ts.Or(ts.Not(class), c))
	case Unsat:
		st.res.mu.Lock()
		st.res.Discharged++
		st.res.mu.Unlock()
	default:
		st.inconclusive(label + " (known-finding class): solver unknown")
	}
	return nil
}

// ---------------------------------------------------------------- math

var ufContracts = map[string]string{
	"Exp": "exp", "Log": "log", "Erfc": "erfc", "Erf": "erf", "Lgamma": "lgamma", "Pow": "pow", "Log2": "log2",
	"Log10": "log10", "Gamma": "gamma", "Log1p": "log1p", "Expm1": "expm1",
}

func native1(name string, x float64) float64 {
	switch name {
	case "Exp":
		return math.Exp(x)
	case "Log":
		return math.Log(x)
	case "Erfc":
		return math.Erfc(x)
	case "Erf":
		return math.Erf(x)
	case "Log2":
		return math.Log2(x)
	case "Log10":
		return math.Log10(x)
	case "Gamma":
		return math.Gamma(x)
	case "Log1p":
		return math.Log1p(x)
	case "Expm1":
		return math.Expm1(x)
	}
	panic("native1 " + name)
}

func (st *State) mathCall(name string, args []Value) (Value, bool) {
	ts := st.ts
	allConst := true
	for _, a := range args {
		if t, ok := a.(*Term); !ok || !t.isConst() {
			allConst = false
		}
	}
	switch name {
	case "Inf":
		s := args[0].(*Term)
		if !s.isConst() {
			s = st.concretize(s)
		}
		if s.sval() >= 0 {
			return ts.F64(math.Inf(1)), true
		}
		return ts.F64(math.Inf(-1)), true
	case "NaN":
		return ts.F64(math.NaN()), true
	case "Float64bits":
		a := f64(args[0])
		if a.isConst() {
			return ts.BV(64, math.Float64bits(a.f)), true
		}
		panic(engineGap("math.Float64bits of a symbolic value"))
	case "Float64frombits":
		a := f64(args[0])
		if a.isConst() {
			return ts.F64(math.Float64frombits(a.u)), true
		}
		if st.realMode() {
			panic(engineGap("math.Float64frombits in a real-mode harness"))
		}
		return ts.intern(&Term{op: OFFromBits, sort: SF64, args: []*Term{a}}), true
	case "Floor":
		return st.fFloor(f64(args[0])), true
	case "Ceil":
		return st.fCeil(f64(args[0])), true
	case "Trunc":
		return st.fTrunc(f64(args[0])), true
	case "Round":
		a := f64(args[0])
		if a.isConst() && a.sort == SF64 {
			return ts.F64(math.Round(a.f)), true
		}
		if a.sort == SF64 {
			return ts.intern(&Term{op: OFRoundAway, sort: SF64, args: []*Term{a}}), true
		}
		// real reading: half away from zero
		half := ts.RealRat(big.NewRat(1, 2))
		pos := ts.ToReal(st.realFloor(ts.rbin(ORAdd, a, half)))
		neg := ts.RNeg(ts.ToReal(st.realFloor(ts.rbin(ORAdd, ts.RNeg(a), half))))
		return ts.Ite(ts.rcmp(ORLt, a, ts.RealF(0)), neg, pos), true
	case "RoundToEven":
		a := f64(args[0])
		if a.isConst() && a.sort == SF64 {
			return ts.F64(math.RoundToEven(a.f)), true
		}
		if a.sort == SF64 {
			return ts.intern(&Term{op: OFRoundEven, sort: SF64, args: []*Term{a}}), true
		}
		panic(engineGap("math.RoundToEven in the real reading"))
	case "Abs":
		return st.fAbs(f64(args[0])), true
	case "Sqrt":
		return st.fSqrt(f64(args[0])), true
	case "Min":
		return st.mathMin(f64(args[0]), f64(args[1])), true
	case "Max":
		return st.mathMax(f64(args[0]), f64(args[1])), true
	case "IsNaN":
		return st.fIsNaN(f64(args[0])), true
	case "IsInf":
		s := args[1].(*Term)
		if !s.isConst() {
			s = st.concretize(s)
		}
		sg := 0
		if s.sval() > 0 {
			sg = 1
		} else if s.sval() < 0 {
			sg = -1
		}
		return st.fIsInf(f64(args[0]), sg), true
	case "Signbit":
		a := f64(args[0])
		if a.sort == SF64 {
			if a.isConst() {
				return ts.Bool(math.Signbit(a.f)), true
			}
			// NaN sign is not modelled; harnesses must exclude NaN here
			return ts.fun1(OFIsNeg, a), true
		}
		if st.h.mode == ModeORD {
			panic(engineGap("Signbit of an order-only float"))
		}
		return ts.rcmp(ORLt, a, ts.RealF(0)), true
	case "Copysign":
		a, b := f64(args[0]), f64(args[1])
		if allConst {
			return ts.F64(math.Copysign(a.f, b.f)), true
		}
		if a.sort == SF64 && b.sort == SF64 {
			abs := ts.fun1(OFAbs, a)
			return ts.Ite(ts.fun1(OFIsNeg, b), ts.fun1(OFNeg, abs), abs), true
		}
		panic(engineGap("Copysign in real mode"))
	case "Modf":
		a := f64(args[0])
		if a.isConst() && a.sort == SF64 {
			i, f := math.Modf(a.f)
			return TupleV{ts.F64(i), ts.F64(f)}, true
		}
		if a.sort == SF64 {
			zero := ts.F64(0)
			ip := ts.fun1(OFTrunc, a)
			if st.implied(ts.fcmp(OFLt, zero, a)) {
				// positive argument: frac = a - trunc(a)
				return TupleV{ip, ts.fbin(OFSub, a, ip)}, true
			}
			na := ts.fun1(OFNeg, a)
			fneg := ts.fun1(OFNeg, ts.fbin(OFSub, na, ts.fun1(OFTrunc, na)))
			fpos := ts.fbin(OFSub, a, ip)
			fr := ts.Ite(ts.fcmp(OFLt, a, zero), fneg, ts.Ite(ts.fcmp(OFEq, a, zero), a, fpos))
			return TupleV{ip, fr}, true
		}
		ip := st.fTrunc(a)
		return TupleV{ip, st.fArith(token.SUB, a, ip)}, true
	case "Exp", "Log", "Erfc", "Erf", "Log2", "Log10", "Gamma", "Log1p", "Expm1":
		a := f64(args[0])
		if a.isConst() && a.sort == SF64 {
			return ts.F64(native1(name, a.f)), true
		}
		return st.ufMath(ufContracts[name], a), true
	case "Pow":
		a, b := f64(args[0]), f64(args[1])
		if allConst && a.sort == SF64 && b.sort == SF64 {
			return ts.F64(math.Pow(a.f, b.f)), true
		}
		if !st.realMode() && !allConst {
			a, b = st.tryConst(a), st.tryConst(b)
			if a.isConst() && b.isConst() {
				return ts.F64(math.Pow(a.f, b.f)), true
			}
		}
		if st.realMode() && !allConst && st.h.mode != ModeORD {
			// solver-aided constant propagation: an argument pinned by the path (e.g. a concretized tick index)
			ca, cb := a, b
			if !ca.isConst() {
				ca = st.tryConst(st.toReal(a))
			}
			if !cb.isConst() {
				cb = st.tryConst(st.toReal(b))
			}
			fa, oka := constFloat(ca)
			fb, okb := constFloat(cb)
			if oka && okb {
				return ts.F64(math.Pow(fa, fb)), true
			}
		}
		// real reading with a small concrete integer exponent: the product
		if st.h.mode == ModeR && b.isConst() && b.sort == SF64 && b.f == math.Trunc(b.f) && b.f >= 0 && b.f <= 12 {
			ra := st.toReal(a)
			r := ts.RealF(1)
			for i := 0; i < int(b.f); i++ {
				r = ts.rbin(ORMul, r, ra)
			}
			return r, true
		}
		return st.ufMath2("pow", a, b), true
	case "Lgamma":
		a := f64(args[0])
		if a.isConst() && a.sort == SF64 {
			l, s := math.Lgamma(a.f)
			return TupleV{ts.F64(l), ts.BV(64, uint64(int64(s)))}, true
		}
		return TupleV{st.ufMath("lgamma", a), ts.BV(64, 1)}, true
	case "MaxInt", "MinInt":
	}
	return nil, false
}

// ufMath applies an uninterpreted unary function with its short contract.
func (st *State) ufMath(name string, a *Term) *Term {
	ts := st.ts
	if st.h.mode == ModeORD {
		panic(engineGap(name + " of an order-only float"))
	}
	if st.realMode() {
		a = st.toReal(a)
	}
	st.usedUF = true
	r := ts.UF("uf_"+name, st.floatSort(), a)
	prev := st.ufOcc[name]
	for _, p := range prev {
		if p == r {
			return r
		}
	}
	le := func(x, y *Term) *Term { return st.fcmp(token.LEQ, x, y) }
	lt := func(x, y *Term) *Term { return st.fcmp(token.LSS, x, y) }
	var zero, one, two *Term
	if st.realMode() {
		zero, one, two = ts.RealF(0), ts.RealF(1), ts.RealF(2)
	} else {
		zero, one, two = ts.F64(0), ts.F64(1), ts.F64(2)
	}
	imp := func(p, q *Term) *Term { return ts.Or(ts.Not(p), q) }
	notNaN := ts.Not(st.fIsNaN(a))
	switch name {
	case "exp":
		ts.Define(r, imp(notNaN, le(zero, r)))
		if st.realMode() {
			ts.Define(r, lt(zero, r))
		}
	case "erfc":
		ts.Define(r, imp(notNaN, ts.And(le(zero, r), le(r, two))))
	case "erf":
		ts.Define(r, imp(notNaN, ts.And(le(st.fneg(one), r), le(r, one))))
	case "log", "log2", "log10":
		// log x < 0 <=> x < 1 on x > 0; log 1 = 0
		pos := lt(zero, a)
		if !st.realMode() {
			ts.Define(r, imp(ts.And(pos, ts.Not(st.fIsInf(a, 0))), ts.Not(ts.Or(st.fIsNaN(r), st.fIsInf(r, 0)))))
		}
		ts.Define(r, imp(pos, ts.Eq2(lt(r, zero), lt(a, one))))
		ts.Define(r, imp(pos, ts.Eq2(st.fcmp(token.EQL, r, zero), st.fcmp(token.EQL, a, one))))
	}
	// inverse pairs in the real reading: exp(log x) = x, log(exp t) = t, instantiated on occurring terms
	if st.realMode() && (name == "exp" || name == "log") {
		other := "log"
		if name == "log" {
			other = "exp"
		}
		for _, p := range st.ufOcc[other] {
			pa := p.args[0]
			// f(a) = r, g(pa) = p ; if a == p then r == pa ; if pa == r then p == a
			ts.Define(r, imp(ts.Eq(a, p), ts.Eq(r, pa)))
			ts.Define(r, imp(ts.Eq(pa, r), ts.Eq(p, a)))
			ts.Define(p, imp(ts.Eq(a, p), ts.Eq(r, pa)))
			ts.Define(p, imp(ts.Eq(pa, r), ts.Eq(p, a)))
		}
	}
	// monotonicity against earlier applications
	mono := 0
	switch name {
	case "exp", "log", "log2", "log10", "erf", "expm1", "log1p":
		mono = 1
	case "erfc":
		mono = -1
	}
	if mono != 0 {
		for _, p := range prev {
			pa := p.args[0]
			if mono > 0 {
				ts.Define(r, imp(le(a, pa), le(r, p)))
				ts.Define(r, imp(le(pa, a), le(p, r)))
				if st.realMode() && (name == "exp" || name == "log") {
					ts.Define(r, imp(lt(a, pa), lt(r, p)))
					ts.Define(r, imp(lt(pa, a), lt(p, r)))
				}
			} else {
				ts.Define(r, imp(le(a, pa), le(p, r)))
				ts.Define(r, imp(le(pa, a), le(r, p)))
			}
		}
	}
	st.ufOcc[name] = append(prev, r)
	return r
}

func (ts *TermStore) Eq2(a, b *Term) *Term { return ts.Eq(a, b) }

func (st *State) ufMath2(name string, a, b *Term) *Term {
	if st.h.mode == ModeORD {
		panic(engineGap(name + " of an order-only float"))
	}
	if st.realMode() {
		a, b = st.toReal(a), st.toReal(b)
	} else {
		// constants stay F64
	}
	st.usedUF = true
	r := st.ts.UF("uf_"+name, st.floatSort(), a, b)
	if name == "pow" && st.h.mode == ModeR {
		st.powContract(r, a, b)
	}
	return r
}

// powContract: real reading of base^y for a constant base > 1, instantiated on occurring applications:
// positive, base^0 = 1, base^1 = base, strictly increasing in y, and the midpoint law
// 2y = y1 + y2  =>  (base^y)^2 = base^y1 * base^y2 (what "geometric interpolation" means).
func (st *State) powContract(r, a, b *Term) {
	ts := st.ts
	base, ok := constFloat(a)
	if !ok || !(base > 1) {
		return
	}
	key := fmt.Sprintf("pow@%v", base)
	prev := st.ufOcc[key]
	for _, p := range prev {
		if p == r {
			return
		}
	}
	imp := func(p, q *Term) *Term { return ts.Or(ts.Not(p), q) }
	zero, one, two := ts.RealF(0), ts.RealF(1), ts.RealF(2)
	ts.Define(r, ts.rcmp(ORLt, zero, r))
	ts.Define(r, imp(ts.Eq(b, zero), ts.Eq(r, one)))
	ts.Define(r, imp(ts.Eq(b, one), ts.Eq(r, a)))
	ts.Define(r, ts.Eq2(ts.rcmp(ORLt, zero, b), ts.rcmp(ORLt, one, r)))
	for _, p := range prev {
		pb := p.args[1]
		ts.Define(r, ts.Eq2(ts.rcmp(ORLt, b, pb), ts.rcmp(ORLt, r, p)))
		ts.Define(r, ts.Eq2(ts.Eq(b, pb), ts.Eq(r, p)))
	}
	all := append(append([]*Term{}, prev...), r)
	if len(all) <= 4 {
		for _, m := range all {
			for i, p := range all {
				for _, q := range all[i+1:] {
					if m == p || m == q {
						continue
					}
					mid := ts.Eq(ts.rbin(ORMul, two, m.args[1]), ts.rbin(ORAdd, p.args[1], q.args[1]))
					ts.Define(r, imp(mid, ts.Eq(ts.rbin(ORMul, m, m), ts.rbin(ORMul, p, q))))
				}
			}
		}
	}
	st.ufOcc[key] = append(prev, r)
}

func (st *State) bitsCall(name string, args []Value) (Value, bool) {
	ts := st.ts
	a := args[0].(*Term)
	w := a.sort.width()
	switch name {
	case "TrailingZeros32", "TrailingZeros64", "TrailingZeros":
		if a.isConst() {
			if a.u == 0 {
				return ts.BV(64, uint64(w)), true
			}
			return ts.BV(64, uint64(bits.TrailingZeros64(a.u))), true
		}
		acc := ts.BV(64, uint64(w))
		for k := w - 1; k >= 0; k-- {
			bit := ts.Not(ts.Eq(ts.bvbin(OBvAnd, a, ts.BV(w, 1<<uint(k))), ts.BV(w, 0)))
			acc = ts.Ite(bit, ts.BV(64, uint64(k)), acc)
		}
		return acc, true
	case "Len", "Len64", "Len32":
		if a.isConst() {
			return ts.BV(64, uint64(bits.Len64(a.u))), true
		}
		acc := ts.BV(64, 0)
		for k := 0; k < w; k++ {
			bit := ts.Not(ts.Eq(ts.bvbin(OBvAnd, a, ts.BV(w, 1<<uint(k))), ts.BV(w, 0)))
			acc = ts.Ite(bit, ts.BV(64, uint64(k+1)), acc)
		}
		return acc, true
	}
	return nil, false
}

// ---------------------------------------------------------------- sort

func (st *State) less(a, b *Term, isF bool) *Term {
	if isF {
		return st.fcmp(token.LSS, a, b)
	}
	return st.ts.bvcmp(OBvSlt, a, b)
}

// sortStub: in-place contract for sort.Float64s / sort.Ints.
func (st *State) sortStub(s SliceV, isF bool) {
	ts := st.ts
	n := s.len
	if n <= 1 {
		return
	}
	xs := make([]*Term, n)
	allC := true
	for i := range xs {
		xs[i] = s.obj.cells[s.off+i].(*Term)
		if !xs[i].isConst() {
			allC = false
		}
	}
	if allC {
		idx := make([]int, n)
		for i := range idx {
			idx[i] = i
		}
		sort.SliceStable(idx, func(i, j int) bool {
			a, b := xs[idx[i]], xs[idx[j]]
			if isF {
				return a.f < b.f || (math.IsNaN(a.f) && !math.IsNaN(b.f))
			}
			return a.sval() < b.sval()
		})
		for i := range idx {
			st.writeCell(s.obj, s.off+i, xs[idx[i]])
		}
		return
	}
	if n > 10 {
		panic(pathEnd{"limit", "sort contract stub limited to 10 symbolic elements"})
	}
	if isF && !st.realMode() {
		// FP reading: NaN ordering is not part of the contract; require NaN-free input
		for _, x := range xs {
			st.require(ts.Not(st.fIsNaN(x)), "sort contract stub: NaN in input (outside the stub's contract)")
		}
	}
	// fresh ascending vector that is a permutation of the input (bijection witnesses)
	out := make([]*Term, n)
	srt := xs[0].sort
	if isF {
		srt = st.floatSort()
		for i, x := range xs {
			if x.sort != srt && st.realMode() {
				xs[i] = st.toReal(x)
			}
		}
	}
	perm := make([]*Term, n)
	key := ""
	for _, x := range xs {
		key += fmt.Sprintf("_%d", x.id)
	}
	for i := 0; i < n; i++ {
		out[i] = ts.Sym(fmt.Sprintf("sorted!%d!%s", i, key), srt)
		perm[i] = ts.Sym(fmt.Sprintf("perm!%d!%s", i, key), SBV8)
	}
	var facts []*Term
	for i := 0; i < n; i++ {
		facts = append(facts, ts.bvcmp(OBvUlt, perm[i], ts.BV(8, uint64(n))))
		// out[i] = xs[perm[i]]
		sel := xs[n-1]
		for k := n - 2; k >= 0; k-- {
			sel = ts.Ite(ts.Eq(perm[i], ts.BV(8, uint64(k))), xs[k], sel)
		}
		if isF && !st.realMode() {
			facts = append(facts, ts.intern(&Term{op: OEq, sort: SBool, args: []*Term{out[i], sel}}))
		} else {
			facts = append(facts, ts.Eq(out[i], sel))
		}
		for j := 0; j < i; j++ {
			facts = append(facts, ts.Not(ts.Eq(perm[i], perm[j])))
		}
		if i > 0 {
			facts = append(facts, ts.Not(st.less(out[i], out[i-1], isF)))
		}
	}
	all := ts.AndN(facts)
	for i := 0; i < n; i++ {
		ts.Define(out[i], all)
	}
	for i := 0; i < n; i++ {
		st.writeCell(s.obj, s.off+i, out[i])
	}
}

func (st *State) areSorted(s SliceV, isF bool) *Term {
	for i := s.len - 1; i > 0; i-- {
		a := s.obj.cells[s.off+i].(*Term)
		b := s.obj.cells[s.off+i-1].(*Term)
		// Float64sAreSorted: x[i] < x[i-1] || (isNaN(x[i]) && !isNaN(x[i-1]))
		c := st.less(a, b, isF)
		if isF {
			c = st.ts.Or(c, st.ts.And(st.fIsNaN(a), st.ts.Not(st.fIsNaN(b))))
		}
		if st.branch(c) {
			return st.ts.False
		}
	}
	return st.ts.True
}

// ---------------------------------------------------------------- fmt / strings

func (st *State) fmtString(name string, args []Value) string {
	if name == "Sprintf" {
		if f, ok := args[0].(StrV); ok && f.sym == nil {
			// render only when every argument is a concrete integer (node labels)
			va := args[1].(SliceV)
			vals := make([]interface{}, va.len)
			ok := true
			for i := 0; i < va.len; i++ {
				iv := va.obj.cells[va.off+i].(IfaceV)
				switch x := iv.v.(type) {
				case *Term:
					if !x.isConst() {
						ok = false
					} else if x.sort.isBV() {
						if _, signed, _ := intType(iv.t); signed {
							vals[i] = x.sval()
						} else {
							vals[i] = x.u
						}
					} else if x.sort == SF64 {
						vals[i] = x.f
					} else if x.sort == SBool {
						vals[i] = x.u == 1
					} else {
						ok = false
					}
				case StrV:
					if x.sym != nil {
						ok = false
					} else {
						vals[i] = x.s
					}
				default:
					ok = false
				}
			}
			if ok {
				return fmt.Sprintf(f.s, vals...)
			}
			return "<fmt:" + f.s + ">"
		}
	}
	return "<fmt>"
}

// fprintf records the call on the writer when it is a harness recorder, else discards.
func (st *State) fprintf(args []Value) Value {
	w := args[0].(IfaceV)
	f := args[1].(StrV)
	va := args[2].(SliceV)
	// render with concrete args where possible
	s := st.fmtString("Sprintf", []Value{f, va})
	// deliver to a Write method of the dynamic type if interpretable
	if w.t != nil {
		if strings.Contains(w.t.String(), "strings.Builder") {
			st.builderAppend(w.v.(Ptr), StrV{s: s})
			return TupleV{st.ts.BV(64, uint64(len(s))), IfaceV{}}
		}
		fn := st.e.prog.LookupMethod(w.t, nil, "WriteString")
		if fn != nil && st.e.inRepo(fn) {
			st.callFunction(fn, []Value{w.v, StrV{s: s}}, nil)
			return TupleV{st.ts.BV(64, uint64(len(s))), IfaceV{}}
		}
		fn = st.e.prog.LookupMethod(w.t, nil, "Write")
		if fn != nil && st.e.inRepo(fn) {
			bs := st.strBytes(StrV{s: s})
			cells := make([]Value, len(bs))
			for i := range bs {
				cells[i] = bs[i]
			}
			sl := SliceV{obj: st.newObj(cells, "fprintf"), len: len(bs), cap: len(bs), esz: 1}
			r := st.callFunction(fn, []Value{w.v, sl}, nil)
			return r
		}
	}
	return TupleV{st.ts.BV(64, uint64(len(s))), IfaceV{}}
}

// strings.Builder is modelled as an object whose first cell holds the accumulated StrV.
func (st *State) builderAppend(p Ptr, s StrV) {
	cur, _ := p.obj.cells[p.off].(StrV)
	if _, ok := p.obj.cells[p.off].(StrV); !ok {
		cur = StrV{}
	}
	if cur.sym == nil && s.sym == nil {
		p.obj.cells[p.off] = StrV{s: cur.s + s.s}
		return
	}
	p.obj.cells[p.off] = StrV{sym: append(append([]*Term{}, st.strBytes(cur)...), st.strBytes(s)...)}
}

func (st *State) builderCall(name string, args []Value) Value {
	p := args[0].(Ptr)
	switch name {
	case "WriteString":
		s := args[1].(StrV)
		st.builderAppend(p, s)
		return TupleV{st.ts.BV(64, uint64(st.strLen(s))), IfaceV{}}
	case "WriteByte":
		b := args[1].(*Term)
		if b.isConst() {
			st.builderAppend(p, StrV{s: string([]byte{byte(b.u)})})
		} else {
			st.builderAppend(p, StrV{sym: []*Term{b}})
		}
		return IfaceV{}
	case "WriteRune":
		r := args[1].(*Term)
		if !r.isConst() {
			panic(engineGap("Builder.WriteRune of symbolic rune"))
		}
		s := string(rune(r.sval()))
		st.builderAppend(p, StrV{s: s})
		return TupleV{st.ts.BV(64, uint64(len(s))), IfaceV{}}
	case "String":
		if s, ok := p.obj.cells[p.off].(StrV); ok {
			return s
		}
		return StrV{}
	case "Len":
		if s, ok := p.obj.cells[p.off].(StrV); ok {
			return st.ts.BV(64, uint64(st.strLen(s)))
		}
		return st.ts.BV(64, 0)
	case "Reset":
		p.obj.cells[p.off] = StrV{}
		return nil
	case "Grow":
		return nil
	case "Write":
		sl := args[1].(SliceV)
		bs := make([]*Term, sl.len)
		for i := range bs {
			bs[i] = sl.obj.cells[sl.off+i].(*Term)
		}
		st.builderAppend(p, StrV{sym: bs})
		return TupleV{st.ts.BV(64, uint64(sl.len)), IfaceV{}}
	}
	panic(engineGap("strings.Builder." + name))
}

// ---------------------------------------------------------------- rand

func (st *State) randCall(fn *ssa.Function, name string, args []Value) (Value, bool) {
	ts := st.ts
	switch name {
	case "NewSource":
		// an opaque source: every draw of a Rand built on it is an arbitrary value
		return IfaceV{t: fn.Signature.Results().At(0).Type(), v: Ptr{obj: st.newObj([]Value{ts.BV(64, 0)}, "rand.Source")}}, true
	case "New":
		return Ptr{obj: st.newObj([]Value{ts.BV(64, 0)}, "rand.Rand")}, true
	case "Float64":
		if fn.Signature.Recv() == nil && st.inLibrary > 0 {
			// the package-level function draws from (and advances) math/rand's global source: hidden shared state
			st.globalWrites = append(st.globalWrites, "math/rand global source")
		}
		// an arbitrary draw in [0,1): named so that the native replay can feed it through a scripted source
		k := 0
		for _, in := range st.inputs {
			if strings.HasPrefix(in.name, "rand.Float64#") {
				k++
			}
		}
		v := st.newInput(fmt.Sprintf("rand.Float64#%d", k), "float", st.floatSort())
		var zero, one *Term
		if st.realMode() {
			zero, one = ts.RealF(0), ts.RealF(1)
		} else {
			zero, one = ts.F64(0), ts.F64(1)
		}
		st.assume(ts.And(st.fcmp(token.LEQ, zero, v), st.fcmp(token.LSS, v, one)))
		if k >= 2 {
			// bound on the scripted source: at most two zero draws in a row (stated in the harness bounds)
			st.assume(ts.Not(st.fcmp(token.EQL, v, zero)))
		}
		return v, true
	case "NormFloat64":
		k := 0
		for _, in := range st.inputs {
			if strings.HasPrefix(in.name, "rand.NormFloat64#") {
				k++
			}
		}
		v := st.newInput(fmt.Sprintf("rand.NormFloat64#%d", k), "float", st.floatSort())
		if !st.realMode() {
			st.assume(ts.Not(ts.Or(st.fIsNaN(v), st.fIsInf(v, 0))))
		}
		return v, true
	}
	return nil, false
}

var _ = types.Identical

// closeTo is vx.Close / vx.Leq: exact in the R and ORD readings, the tolerance formula otherwise.
func (st *State) closeTo(leq bool, a, b, rel, abs *Term, alwaysTol bool) *Term {
	ts := st.ts
	exact := st.fcmp(token.EQL, a, b)
	if leq {
		exact = st.fcmp(token.LEQ, a, b)
	}
	if a.isConst() && b.isConst() && a.sort == SF64 && b.sort == SF64 {
		// two concrete float64 values: the tolerance test itself, evaluated natively
		if exact.isTrue() {
			return exact
		}
		if math.IsNaN(a.f) || math.IsNaN(b.f) || math.IsInf(a.f, 0) || math.IsInf(b.f, 0) {
			return ts.False
		}
		d := math.Abs(a.f - b.f)
		return ts.Bool(d <= abs.f || d <= rel.f*math.Max(math.Abs(a.f), math.Abs(b.f)))
	}
	if (st.h.mode == ModeR || st.h.mode == ModeORD) && !alwaysTol {
		return exact
	}
	if st.h.mode == ModeRR || st.realMode() {
		ra, rb := st.toReal(a), st.toReal(b)
		d := ts.rbin(ORSub, ra, rb)
		ad := ts.Ite(ts.rcmp(ORLt, d, ts.RealF(0)), ts.RNeg(d), d)
		aa := ts.Ite(ts.rcmp(ORLt, ra, ts.RealF(0)), ts.RNeg(ra), ra)
		ab := ts.Ite(ts.rcmp(ORLt, rb, ts.RealF(0)), ts.RNeg(rb), rb)
		mx := ts.Ite(ts.rcmp(ORLt, aa, ab), ab, aa)
		tol := ts.Or(ts.rcmp(ORLe, ad, st.toReal(abs)), ts.rcmp(ORLe, ad, ts.rbin(ORMul, st.toReal(rel), mx)))
		return ts.Or(exact, tol)
	}
	// FP
	bad := ts.Or(ts.Or(st.fIsNaN(a), st.fIsNaN(b)), ts.Or(st.fIsInf(a, 0), st.fIsInf(b, 0)))
	d := ts.fun1(OFAbs, ts.fbin(OFSub, a, b))
	mx := st.mathMax(ts.fun1(OFAbs, a), ts.fun1(OFAbs, b))
	tol := ts.Or(ts.fcmp(OFLe, d, abs), ts.fcmp(OFLe, d, ts.fbin(OFMul, rel, mx)))
	return ts.Or(exact, ts.And(ts.Not(bad), tol))
}

// constFloat returns the float64 value of a constant float or rational term.
func constFloat(t *Term) (float64, bool) {
	if !t.isConst() {
		return 0, false
	}
	switch t.sort {
	case SF64:
		return t.f, true
	case SReal, SInt:
		f, _ := t.r.Float64()
		return f, true
	}
	return 0, false
}

package main

// Path exploration by re-execution along decision prefixes.

import (
	"strings"
	"fmt"
	"math"
	"os"
	"sort"
	"sync"
	"time"

	"golang.org/x/tools/go/ssa"
)

type Mode int

const (
	ModeFP Mode = iota
	ModeR
	ModeORD
	ModeRR
)

func (m Mode) String() string { return [...]string{"FP", "R", "ORD", "RR"}[m] }

type Harness struct {
	Name      string
	Prop      string
	fn        *ssa.Function
	mode      Mode
	solver    string
	stubs     map[string]*ssa.Function
	maxDec    int
	maxSteps  int64
	timeoutMs int
	covers    []string
	maxPaths  int
	ifconv    bool
	needTier  int // run only when tier >= needTier
	budgetS   int // wall-clock budget in seconds (0 = default for the tier)
	fresh  bool // a new solver process and term table for every path: the SMT text of a path no longer depends on what its worker did before
	jobs      int // worker cap (0 = no cap)
	bounds, outside, assumes, stubNotes []string
}

type InputVal struct {
	Name string  `json:"name"`
	Kind string  `json:"kind"` // float int uint bool byte
	Bits string  `json:"bits,omitempty"`
	I    int64   `json:"i,omitempty"`
	F    float64 `json:"f,omitempty"` // informational (may lose NaN/Inf)
	Repr string  `json:"repr,omitempty"`
}

type Candidate struct {
	Harness string           `json:"harness"`
	Prop    string           `json:"property"`
	Label   string           `json:"failed"`
	Kind    string           `json:"kind"` // assert | panic | frozen | cover | validate
	KF      string           `json:"known_finding,omitempty"`
	Mode    string           `json:"float_mode"`
	Choices map[string]int64 `json:"shape"`
	Inputs  []InputVal       `json:"inputs"`
	Observe []ObsVal         `json:"observed,omitempty"`
	Detail  string           `json:"detail,omitempty"`
	Approx  bool             `json:"approximate_model,omitempty"`
	Abstract bool            `json:"abstract,omitempty"` // the path used a stub or an uninterpreted function
}

type ObsVal struct {
	Name string `json:"name"`
	Bits string `json:"bits"`
	Repr string `json:"repr"`
}

type inputRec struct {
	name string
	kind string
	t    *Term
}

type obsRec struct {
	name string
	t    *Term
	kind string
}

type pathEnd struct {
	status string // ok pruned panic limit gap outside
	msg    string
}

type goPanic struct {
	msg string
	val Value
}

type HarnessResult struct {
	mu            sync.Mutex
	Paths         int
	PathsOK       int
	Pruned        int
	Decisions     int
	Obligations   int
	Discharged    int
	Syntactic     int
	Inconclusive  []string
	Candidates    []Candidate // violation candidates (to be replayed)
	KFCandidates  []Candidate
	CoverWit      map[string]Candidate
	CoverHits     map[string]int
	Validation    []Candidate // sampled paths with observed values for translator validation
	Gaps          map[string]int
	Limits        map[string]int
	Outside       map[string]int
	Uncertain     int
	Samples       []string
	Stats         SolverStats
	FuncsEncoded  map[string]bool
	MaxPC         int
	Steps         int64
	ChoiceShapes  map[string]bool
	Wall          time.Duration
	CrossUnknown int
	CrossChecked  int
	PathCapHit    bool
	TimedOut      bool
	candSeen      map[string]int
	concreteEnd    pathEnd
	concreteObs    []obsRec
	concreteCovers map[string]bool
	concreteFails  []string
}

type State struct {
	e      *Engine
	h      *Harness
	ts     *TermStore
	solver *Solver
	res    *HarnessResult
	q      *workQueue

	pc      []*Term
	pcSet   map[int]bool
	prefix  []uint64
	dec     []uint64
	inputs  []inputRec
	choices map[string]int64
	chOrder []string
	globals map[*ssa.Global]*Obj
	pristine map[*ssa.Global]*Obj
	steps   int64
	nextObj int
	panicsDepth int
	covers  map[string]bool
	observed []obsRec
	proven  map[int]bool
	depth   int
	freshCtr int
	ufOcc   map[string][]*Term
	uncertain bool
	concrete map[string]InputVal // pinned inputs (validation / concrete mode)
	tier    int
	fnInfos map[*ssa.Function]*fnInfo
	rnds    []*Term // RR mode: rounding applications this path
	epoch   int
	localStats SolverStats
	noted map[*ssa.Function]bool
	constCache map[int]*Term
	hadCandidate bool
	inLibrary int
	globalWrites []string
	sharedWrites []string
	frozenObjs []*Obj
	second *Solver
	nonFinite bool // a division by zero in the real reading was approximated by NaN
	libFn map[*ssa.Function]bool
	usedUF bool // the path used an uninterpreted function (its model need not replay natively)
	known map[int]*Term // terms pinned to a constant by a taken equality on this path
	choicesPinned map[string]int64
	concreteFails []string
}

const (
	decForced = 2
)

type workQueue struct {
	mu      sync.Mutex
	cond    *sync.Cond
	items   [][]uint64
	active  int
	closed  bool
	timedOut bool
	started int
	cap     int
}

func newQueue(cap int) *workQueue {
	q := &workQueue{cap: cap}
	q.cond = sync.NewCond(&q.mu)
	return q
}
func (q *workQueue) push(p []uint64) {
	q.mu.Lock()
	if q.closed {
		q.mu.Unlock()
		return
	}
	q.items = append(q.items, p)
	q.mu.Unlock()
	q.cond.Signal()
}
func (q *workQueue) pop() ([]uint64, bool) {
	q.mu.Lock()
	defer q.mu.Unlock()
	for {
		if len(q.items) > 0 {
			if q.cap > 0 && q.started >= q.cap {
				q.items = nil
				q.closed = true
				q.cond.Broadcast()
				return nil, false
			}
			p := q.items[len(q.items)-1]
			q.items = q.items[:len(q.items)-1]
			q.active++
			q.started++
			return p, true
		}
		if q.active == 0 || q.closed {
			q.cond.Broadcast()
			return nil, false
		}
		q.cond.Wait()
	}
}
func (q *workQueue) done() {
	q.mu.Lock()
	q.active--
	if q.active == 0 && len(q.items) == 0 {
		q.cond.Broadcast()
	}
	q.mu.Unlock()
}

// ---------------------------------------------------------------- path condition

func (st *State) addPC(c *Term) {
	if c.isTrue() {
		return
	}
	if st.pcSet[c.id] {
		return
	}
	st.pc = append(st.pc, c)
	st.pcSet[c.id] = true
	// an asserted equality with a constant pins the term for later reads (path-sensitive constant propagation)
	if c.op == OEq && len(c.args) == 2 && c.args[0].sort.isBV() {
		a, b := c.args[0], c.args[1]
		if b.isConst() && !a.isConst() {
			if st.known == nil {
				st.known = map[int]*Term{}
			}
			st.known[a.id] = b
		} else if a.isConst() && !b.isConst() {
			if st.known == nil {
				st.known = map[int]*Term{}
			}
			st.known[b.id] = a
		}
	}
}

func (st *State) check(extra ...*Term) Result {
	return st.solver.Check(st.ts, st.pc, extra...)
}

// branch decides a symbolic condition, forking when both sides are feasible.
func (st *State) branch(c *Term) bool {
	if c.isConst() {
		return c.u == 1
	}
	if st.pcSet[c.id] {
		return true
	}
	nc := st.ts.Not(c)
	if st.pcSet[nc.id] {
		return false
	}
	i := len(st.dec)
	if i < len(st.prefix) {
		d := st.prefix[i]
		st.dec = append(st.dec, d)
		taken := d&1 == 1
		if d&decForced != 0 {
			if taken {
				st.pcSet[c.id] = true
			} else {
				st.pcSet[nc.id] = true
			}
		} else if taken {
			st.addPC(c)
		} else {
			st.addPC(nc)
		}
		return taken
	}
	if len(st.dec) >= st.h.maxDec {
		panic(pathEnd{"limit", fmt.Sprintf("decision limit %d reached", st.h.maxDec)})
	}
	if st.q != nil && st.q.timedOut {
		panic(pathEnd{"limit", "time budget reached"})
	}
	rt := st.check(c)
	if rt == Unsat {
		st.dec = append(st.dec, 0|decForced)
		st.pcSet[nc.id] = true
		return false
	}
	rf := st.check(nc)
	if rf == Unsat {
		st.dec = append(st.dec, 1|decForced)
		st.pcSet[c.id] = true
		return true
	}
	if rt == Unknown || rf == Unknown {
		st.uncertain = true
	}
	alt := make([]uint64, len(st.dec)+1)
	copy(alt, st.dec)
	alt[len(st.dec)] = 0
	st.q.push(alt)
	st.dec = append(st.dec, 1)
	st.addPC(c)
	return true
}

// choose is a free (solver-less) decision among n alternatives.
func (st *State) choose(n int) int {
	if n <= 0 {
		panic(pathEnd{"pruned", "empty choice"})
	}
	if n == 1 {
		return 0
	}
	i := len(st.dec)
	if i < len(st.prefix) {
		d := st.prefix[i]
		st.dec = append(st.dec, d)
		return int(d >> 2)
	}
	for k := n - 1; k >= 1; k-- {
		alt := make([]uint64, len(st.dec)+1)
		copy(alt, st.dec)
		alt[len(st.dec)] = uint64(k) << 2
		st.q.push(alt)
	}
	st.dec = append(st.dec, 0)
	return 0
}

func (st *State) assume(c *Term) {
	if c.isConst() {
		if c.u == 0 {
			panic(pathEnd{"pruned", "assumption false"})
		}
		return
	}
	if st.pcSet[c.id] {
		return
	}
	if len(st.dec) < len(st.prefix) {
		// replaying a known-feasible prefix: the assumption was feasible the first time
		st.addPC(c)
		return
	}
	r := st.check(c)
	if r == Unsat {
		panic(pathEnd{"pruned", "assumption infeasible"})
	}
	if r == Unknown {
		st.uncertain = true
	}
	st.addPC(c)
}

// axiom adds a fact that is true by construction (no feasibility check).
func (st *State) axiom(c *Term) { st.addPC(c) }

// concretize forks over the feasible values of a bit-vector term.
func (st *State) concretize(t *Term) *Term {
	for n := 0; ; n++ {
		if t.isConst() {
			return t
		}
		if n > 4096 {
			panic(pathEnd{"limit", "concretization of a value with more than 4096 feasible values"})
		}
		var v *Term
		if i := len(st.dec); i < len(st.prefix) {
			// replay: the value chosen the first time is part of the decision trace
			v = st.ts.BV(t.sort.width(), st.prefix[i])
			st.dec = append(st.dec, st.prefix[i])
		} else {
			if st.check() != Sat {
				st.uncertain = true
				panic(pathEnd{"limit", "concretization: solver gave no model"})
			}
			mv, ok := st.solver.GetValues(st.ts, []*Term{t})
			if !ok {
				panic(pathEnd{"limit", "concretization: cannot read model"})
			}
			v = st.ts.BV(t.sort.width(), mv[t.id].U)
			st.dec = append(st.dec, v.u)
		}
		if st.branch(st.ts.Eq(t, v)) {
			if st.known == nil {
				st.known = map[int]*Term{}
			}
			st.known[t.id] = v
			return v
		}
	}
}

// ---------------------------------------------------------------- obligations

func (st *State) modelCandidate(kind, label string) (Candidate, bool) {
	c := Candidate{Harness: st.h.Name, Prop: st.h.Prop, Label: label, Kind: kind, Mode: st.h.mode.String(), Choices: map[string]int64{},
		Abstract: len(st.h.stubs) > 0 || st.usedUF}
	for k, v := range st.choices {
		c.Choices[k] = v
	}
	var terms []*Term
	for _, in := range st.inputs {
		if !in.t.isConst() {
			terms = append(terms, in.t)
		}
	}
	for _, o := range st.observed {
		if !o.t.isConst() {
			terms = append(terms, o.t)
		}
	}
	mv, ok := st.solver.GetValues(st.ts, terms)
	if !ok {
		return c, false
	}
	val := func(t *Term) (ModelVal, bool) {
		if t.isConst() {
			return ModelVal{Sort: t.sort, U: t.u, F: t.f, R: t.r}, true
		}
		m, ok := mv[t.id]
		return m, ok
	}
	for _, in := range st.inputs {
		m, ok := val(in.t)
		if !ok {
			return c, false
		}
		iv := InputVal{Name: in.name, Kind: in.kind}
		switch in.kind {
		case "float":
			var f float64
			if m.Sort == SF64 {
				f = m.F
			} else {
				if m.R == nil {
					return c, false
				}
				f, _ = m.R.Float64()
				if m.Approx || new(bigRat).SetFloat64(f) == nil || new(bigRat).SetFloat64(f).Cmp(m.R) != 0 {
					c.Approx = true
				}
			}
			iv.Bits = fmt.Sprintf("0x%016x", math.Float64bits(f))
			iv.Repr = fmt.Sprintf("%g", f)
		case "bool":
			iv.I = int64(m.U)
		default:
			iv.I = int64(m.U)
			if in.kind == "int" {
				iv.I = signExt(m.U, in.t.sort.width())
			}
			iv.Bits = fmt.Sprintf("0x%x", m.U)
		}
		c.Inputs = append(c.Inputs, iv)
	}
	for _, o := range st.observed {
		m, ok := val(o.t)
		if !ok {
			continue
		}
		ov := ObsVal{Name: o.name}
		switch m.Sort {
		case SF64:
			ov.Bits = fmt.Sprintf("f:%016x", math.Float64bits(m.F))
			ov.Repr = fmt.Sprintf("%g", m.F)
		case SBool:
			ov.Bits = fmt.Sprintf("b:%d", m.U)
			ov.Repr = ov.Bits
		case SReal, SInt:
			ov.Bits = "real"
			if m.R != nil {
				f, _ := m.R.Float64()
				ov.Repr = fmt.Sprintf("%g", f)
			}
		default:
			ov.Bits = fmt.Sprintf("i:%x", m.U)
			ov.Repr = fmt.Sprintf("%d", signExt(m.U, m.Sort.width()))
		}
		c.Observe = append(c.Observe, ov)
	}
	return c, true
}

func signExt(u uint64, w int) int64 {
	if w < 64 && u&(1<<uint(w-1)) != 0 {
		u |= ^mask(w)
	}
	return int64(u)
}

func (st *State) recordCandidate(c Candidate, kf string) {
	st.hadCandidate = true
	st.res.mu.Lock()
	defer st.res.mu.Unlock()
	key := c.Label + "|" + kf
	if st.res.candSeen == nil {
		st.res.candSeen = map[string]int{}
	}
	st.res.candSeen[key]++
	if st.res.candSeen[key] > 3 { // keep at most 3 witnesses per label
		return
	}
	c.KF = kf
	if kf != "" {
		st.res.KFCandidates = append(st.res.KFCandidates, c)
	} else {
		st.res.Candidates = append(st.res.Candidates, c)
	}
}

// obligation checks pc => c; on failure records a violation candidate.
// Afterwards c is assumed.
func (st *State) obligation(c *Term, kind, label string) {
	st.res.mu.Lock()
	st.res.Obligations++
	st.res.mu.Unlock()
	if c.isTrue() || st.pcSet[c.id] || st.proven[c.id] {
		st.res.mu.Lock()
		st.res.Discharged++
		st.res.Syntactic++
		st.res.mu.Unlock()
		return
	}
	nc := st.ts.Not(c)
	r := st.check(nc)
	switch r {
	case Unsat:
		if st.second != nil {
			// second opinion from an independent solver: disagreement or no answer makes the obligation inconclusive
			r2 := st.second.Check(st.ts, st.pc, nc)
			if r2 == Sat {
				// the two solvers contradict each other: the obligation is not counted as discharged
				st.inconclusive(label + ": discharged by " + st.solver.kind + " but " + st.second.kind + " answers sat")
				st.assume(c)
				return
			}
			st.res.mu.Lock()
			if r2 == Unsat {
				st.res.CrossChecked++
			} else {
				st.res.CrossUnknown++ // no second opinion (time-out): the first solver's unsat stands, reported in the evidence
			}
			st.res.mu.Unlock()
		}
		st.res.mu.Lock()
		st.res.Discharged++
		st.res.mu.Unlock()
		st.proven[c.id] = true
		return
	case Sat:
		cand, ok := st.modelCandidate(kind, label)
		if ok {
			st.recordCandidate(cand, "")
		} else {
			st.inconclusive(label + ": sat but model unreadable (" + st.solver.lastErr + ")")
		}
	default:
		st.inconclusive(label + ": solver " + r.String() + " " + st.solver.lastErr)
	}
	st.assume(c)
}

func (st *State) inconclusive(msg string) {
	st.res.mu.Lock()
	if len(st.res.Inconclusive) < 200 {
		st.res.Inconclusive = append(st.res.Inconclusive, st.h.Name+": "+msg)
	} else if len(st.res.Inconclusive) == 200 {
		st.res.Inconclusive = append(st.res.Inconclusive, "… more")
	}
	st.res.mu.Unlock()
}

// require is an implicit no-panic obligation (index, division, nil...).
func (st *State) require(c *Term, what string) {
	if c.isConst() {
		if c.u == 0 {
			panic(goPanic{msg: "runtime error: " + what})
		}
		return
	}
	if st.pcSet[c.id] || st.proven[c.id] {
		return
	}
	if st.panicsDepth > 0 {
		if !st.branch(c) {
			panic(goPanic{msg: "runtime error: " + what})
		}
		return
	}
	st.obligation(c, "panic", "no-panic: "+what)
}

// ---------------------------------------------------------------- running one path

func (st *State) runPath() (end pathEnd) {
	defer func() {
		if r := recover(); r != nil {
			switch x := r.(type) {
			case pathEnd:
				end = x
			case goPanic:
				end = pathEnd{"panic", x.msg}
			case engineGapErr:
				end = pathEnd{"gap", x.msg}
			default:
				if os.Getenv("VX_DEBUG") != "" {
					panic(r)
				}
				end = pathEnd{"gap", fmt.Sprintf("engine error: %v", r)}
			}
		}
	}()
	st.callFunction(st.h.fn, nil, nil)
	return pathEnd{"ok", ""}
}

func (e *Engine) newState(h *Harness, w *worker, res *HarnessResult, q *workQueue, prefix []uint64, tier int) *State {
	st := &State{e: e, h: h, ts: w.ts, solver: w.solver, second: w.second, res: res, q: q, prefix: prefix, tier: tier,
		pcSet: map[int]bool{}, choices: map[string]int64{}, globals: map[*ssa.Global]*Obj{}, pristine: w.pristine,
		covers: map[string]bool{}, proven: map[int]bool{}, ufOcc: map[string][]*Term{}, fnInfos: w.fnInfos}
	return st
}

type worker struct {
	second   *Solver // thorough tier: an independent back end re-discharges every unsat obligation
	stats2   SolverStats
	paths    int
	ts       *TermStore
	solver   *Solver
	pristine map[*ssa.Global]*Obj
	fnInfos  map[*ssa.Function]*fnInfo
	stats    SolverStats
}

func (e *Engine) newWorker(h *Harness) *worker {
	w := &worker{ts: NewTermStore(), fnInfos: map[*ssa.Function]*fnInfo{}}
	w.solver = NewSolver(h.solver, h.timeoutMs, &w.stats)
	w.pristine = e.initGlobals(w)
	return w
}

// RunHarness explores all paths of one harness.
func (e *Engine) RunHarness(h *Harness, tier int, jobs int, pinned map[string]InputVal, pinnedChoices map[string]int64) *HarnessResult {
	res := &HarnessResult{CoverWit: map[string]Candidate{}, CoverHits: map[string]int{}, Gaps: map[string]int{}, Limits: map[string]int{},
		Outside: map[string]int{}, FuncsEncoded: map[string]bool{}, ChoiceShapes: map[string]bool{}}
	t0 := time.Now()
	q := newQueue(h.maxPaths)
	q.push(nil)
	budget := h.budgetS
	if budget == 0 {
		budget = 420
		if tier > 0 {
			budget = 5400
		}
	}
	stopTimer := make(chan struct{})
	go func() {
		select {
		case <-time.After(time.Duration(budget) * time.Second):
			q.mu.Lock()
			q.items = nil
			q.closed = true
			q.timedOut = true
			q.cond.Broadcast()
			q.mu.Unlock()
		case <-stopTimer:
		}
	}()
	defer close(stopTimer)
	var wg sync.WaitGroup
	if pinned != nil {
		jobs = 1
	}
	if h.jobs > 0 && jobs > h.jobs {
		jobs = h.jobs
	}
	for j := 0; j < jobs; j++ {
		wg.Add(1)
		go func() {
			defer wg.Done()
			var w *worker
			for {
				p, ok := q.pop()
				if !ok {
					break
				}
				if w == nil {
					w = e.newWorker(h)
					if alt := secondSolverFor(h, tier); alt != "" {
						w.second = NewSolver(alt, h.timeoutMs, &w.stats2)
					}
				}
				st := e.newState(h, w, res, q, p, tier)
				st.concrete = pinned
				st.pinnedChoices(pinnedChoices)
				end := st.runPath()
				e.finishPath(st, end)
				q.done()
				w.paths++
				// recycle the worker now and then: the term table and the solver's global definitions only grow
				if len(w.ts.all) > 600000 || w.paths > 4000 || w.solver.dead || h.fresh {
					w.solver.Close()
					if w.second != nil {
						w.second.Close()
					}
					res.mu.Lock()
					res.Stats.Sat += w.stats.Sat
					res.Stats.Unsat += w.stats.Unsat
					res.Stats.Unknown += w.stats.Unknown
					res.Stats.Errors += w.stats.Errors
					res.Stats.Time += w.stats.Time
					res.mu.Unlock()
					w = nil
				}
			}
			if w != nil {
				w.solver.Close()
				if w.second != nil {
					w.second.Close()
				}
				res.mu.Lock()
				res.Stats.Sat += w.stats.Sat
				res.Stats.Unsat += w.stats.Unsat
				res.Stats.Unknown += w.stats.Unknown
				res.Stats.Errors += w.stats.Errors
				res.Stats.Time += w.stats.Time
				res.mu.Unlock()
			}
		}()
	}
	wg.Wait()
	res.PathCapHit = q.closed && !q.timedOut
	res.TimedOut = q.timedOut
	res.Wall = time.Since(t0)
	return res
}


func (st *State) pinnedChoices(m map[string]int64) {
	if m != nil {
		st.choicesPinned = m
	}
}

func (e *Engine) finishPath(st *State, end pathEnd) {
	res := st.res
	// things that need the solver come first (no lock held)
	var sample string
	var valid *Candidate
	if end.status == "ok" && st.concrete == nil && !st.hadCandidate && len(st.h.stubs) == 0 && !st.usedUF {
		res.mu.Lock()
		n := res.PathsOK
		res.mu.Unlock()
		// sample some completed paths for translator validation
		if n < 6 || (n < 4000 && n%97 == 0) {
			if st.check() == Sat {
				if c, ok := st.modelCandidate("validate", "path"); ok {
					valid = &c
				}
			}
		}
	}
	if end.status == "panic" && st.concrete == nil {
		// a panic outside vx.Panics is a violation of the no-panic obligation
		if st.check() == Sat {
			if c, ok := st.modelCandidate("panic", "no-panic: "+end.msg); ok {
				st.recordCandidate(c, "")
			}
		} else {
			st.inconclusive("panic path without a model: " + end.msg)
		}
		res.mu.Lock()
		res.Obligations++
		res.mu.Unlock()
	}
	res.mu.Lock()
	defer res.mu.Unlock()
	res.Paths++
	for f := range st.noted {
		if st.e.inRepo(f) && !strings.Contains(f.Name(), "VxC") {
			res.FuncsEncoded[f.String()] = true
		}
	}
	res.Decisions += len(st.dec)
	res.Steps += st.steps
	if len(st.pc) > res.MaxPC {
		res.MaxPC = len(st.pc)
	}
	if st.uncertain {
		res.Uncertain++
	}
	if st.nonFinite {
		res.Outside["division by zero in the real reading (continued with NaN as a stand-in for +-Inf/NaN; proofs on such paths are not counted)"]++
	}
	switch end.status {
	case "ok":
		res.PathsOK++
		if len(res.Samples) < 5 {
			sample = st.describe()
			res.Samples = append(res.Samples, sample)
		}
		if valid != nil {
			res.Validation = append(res.Validation, *valid)
		}
		if len(st.choices) > 0 {
			res.ChoiceShapes[fmt.Sprint(st.choiceList())] = true
		}
	case "pruned":
		res.Pruned++
	case "panic":
		res.Limits["panic: "+end.msg]++
	case "limit":
		res.Limits[end.msg]++
	case "gap":
		res.Gaps[end.msg]++
	case "outside":
		res.Outside[end.msg]++
	}
	if st.concrete != nil {
		// concrete run: keep the trace
		res.concreteEnd = end
		res.concreteObs = st.observed
		res.concreteCovers = st.covers
		res.concreteFails = st.concreteFails
	}
}

func (st *State) choiceList() []string {
	var out []string
	for _, k := range st.chOrder {
		out = append(out, fmt.Sprintf("%s=%d", k, st.choices[k]))
	}
	return out
}

func (st *State) describe() string {
	s := fmt.Sprintf("shape=%v decisions=%d pc=[", st.choiceList(), len(st.dec))
	for i, c := range st.pc {
		if i >= 6 {
			s += " …"
			break
		}
		if i > 0 {
			s += " ∧ "
		}
		x := c.String()
		if len(x) > 120 {
			x = x[:120] + "…"
		}
		s += x
	}
	return s + "]"
}

func sortedKeys(m map[string]int) []string {
	var ks []string
	for k := range m {
		ks = append(ks, k)
	}
	sort.Strings(ks)
	return ks
}

// tryConst asks the solver whether a scalar term has exactly one value under the path
// condition; if so the constant is returned (solver-aided constant propagation, used before
// a transcendental function would otherwise become an uninterpreted application).
func (st *State) tryConst(t *Term) *Term {
	if t.isConst() || st.solver == nil || st.concrete != nil {
		return t
	}
	if t.sort != SF64 && !t.sort.isBV() && t.sort != SReal && t.sort != SInt {
		return t
	}
	if c, ok := st.constCache[t.id]; ok {
		if c == nil {
			return t
		}
		return c
	}
	if st.constCache == nil {
		st.constCache = map[int]*Term{}
	}
	st.constCache[t.id] = nil
	if st.check() != Sat {
		return t
	}
	mv, ok := st.solver.GetValues(st.ts, []*Term{t})
	if !ok {
		return t
	}
	var c *Term
	var ne *Term
	if t.sort == SReal || t.sort == SInt {
		mv0 := mv[t.id]
		if mv0.R == nil || mv0.Approx {
			return t
		}
		if t.sort == SReal {
			c = st.ts.RealRat(mv0.R)
		} else {
			c = st.ts.intern(&Term{op: OConst, sort: SInt, r: new(bigRat).Set(mv0.R)})
		}
		ne = st.ts.Not(st.ts.Eq(t, c))
	} else if t.sort == SF64 {
		c = st.ts.F64(mv[t.id].F)
		ne = st.ts.Not(st.ts.intern(&Term{op: OEq, sort: SBool, args: []*Term{t, c}}))
	} else {
		c = st.ts.BV(t.sort.width(), mv[t.id].U)
		ne = st.ts.Not(st.ts.Eq(t, c))
	}
	if st.check(ne) != Unsat {
		return t
	}
	st.constCache[t.id] = c
	return c
}

// implied reports whether the path condition entails c (one query; unknown counts as no).
func (st *State) implied(c *Term) bool {
	if c.isConst() {
		return c.u == 1
	}
	if st.pcSet[c.id] || st.proven[c.id] {
		return true
	}
	if st.solver == nil || st.concrete != nil {
		return false
	}
	if st.check(st.ts.Not(c)) == Unsat {
		st.proven[c.id] = true
		return true
	}
	return false
}

// secondSolverFor names the independent back end used to re-discharge unsat obligations in the
// thorough tier (z3 4.8.12 <-> z3 5.1.0 for bit-vectors, reals and integers). FloatingPoint queries
// are not re-discharged: the other FP back ends are 5-10x slower on them (DESIGN section 3).
func secondSolverFor(h *Harness, tier int) string {
	if tier == 0 || os.Getenv("VX_NO_CROSSCHECK") != "" {
		return ""
	}
	switch h.solver {
	case "z3":
		return "z3-new"
	case "z3-new":
		return "z3"
	}
	return ""
}

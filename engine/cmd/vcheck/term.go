package main

// Hash-consed SMT term DAG with constructor-time simplification.
// One TermStore per worker (no sharing between goroutines).

import (
	"fmt"
	"math"
	"math/big"
	"math/bits"
	"strings"
)

type Sort uint8

const (
	SBool Sort = iota
	SBV8
	SBV16
	SBV32
	SBV64
	SF64
	SReal
	SInt
)

func (s Sort) String() string {
	switch s {
	case SBool:
		return "Bool"
	case SBV8:
		return "(_ BitVec 8)"
	case SBV16:
		return "(_ BitVec 16)"
	case SBV32:
		return "(_ BitVec 32)"
	case SBV64:
		return "(_ BitVec 64)"
	case SF64:
		return "(_ FloatingPoint 11 53)"
	case SReal:
		return "Real"
	case SInt:
		return "Int"
	}
	return "?"
}

func (s Sort) isBV() bool { return s >= SBV8 && s <= SBV64 }
func (s Sort) width() int {
	switch s {
	case SBV8:
		return 8
	case SBV16:
		return 16
	case SBV32:
		return 32
	case SBV64:
		return 64
	}
	return 0
}
func bvSort(w int) Sort {
	switch w {
	case 8:
		return SBV8
	case 16:
		return SBV16
	case 32:
		return SBV32
	case 64:
		return SBV64
	}
	panic(fmt.Sprintf("bvSort(%d)", w))
}

type Op uint8

const (
	OConst Op = iota
	OSym
	OUF // uninterpreted function application: name, args
	ONot
	OAnd
	OOr
	OIte
	OEq // generic equality (non-float), also Real/Int/Bool
	// bit-vectors
	OBvAdd
	OBvSub
	OBvMul
	OBvUDiv
	OBvSDiv
	OBvURem
	OBvSRem
	OBvAnd
	OBvOr
	OBvXor
	OBvShl
	OBvLshr
	OBvAshr
	OBvNot
	OBvNeg
	OBvUlt
	OBvSlt
	OBvUle
	OBvSle
	OZext // aux = target width
	OSext
	OExtract // aux = target width (low bits)
	// FP
	OFAdd
	OFSub
	OFMul
	OFDiv
	OFNeg
	OFAbs
	OFSqrt
	OFLt
	OFLe
	OFEq // fp.eq (IEEE ==)
	OFIsNaN
	OFIsInf
	OFFloor
	OFCeil
	OFTrunc
	OFRoundAway
	OFRoundEven
	OFToSBV  // aux width, RTZ
	OFToUBV  // aux width, RTZ
	OFFromS  // from signed bv, RNE
	OFFromU  // from unsigned bv, RNE
	OFToBits // F64 -> BV64 reinterpret (only used through a fresh var trick; see smt)
	OFFromBits
	OFIsNeg // sign bit set (incl -0); NaN unspecified -> we only use on non-NaN
	// Real / Int
	ORAdd
	ORSub
	ORMul
	ORDiv
	ORNeg
	ORLt
	ORLe
	OToReal // Int -> Real
	OIAdd
	OISub
	OIMul
	OILt
	OILe
	OBv2Int // unsigned value of bv as Int
	OBv2IntS
	OInt2Bv // aux = width
)

type Term struct {
	id   int
	op   Op
	sort Sort
	args []*Term
	u    uint64   // bv / bool constant
	f    float64  // F64 constant
	r    *big.Rat // Real / Int constant
	name string   // symbol or UF name
	aux  int
}

func (t *Term) isConst() bool { return t.op == OConst }
func (t *Term) isTrue() bool  { return t.op == OConst && t.sort == SBool && t.u == 1 }
func (t *Term) isFalse() bool { return t.op == OConst && t.sort == SBool && t.u == 0 }

type TermStore struct {
	tab   map[string]*Term
	all   []*Term
	syms  map[string]*Term
	ufs   map[string]string // name -> declaration
	fresh int
	defs  map[int][]*Term // witness term id -> definitional axioms (relevance-filtered at query time)
	defSeen map[int]map[int]bool
	reach map[int][]*Term
	True  *Term
	False *Term
}

func NewTermStore() *TermStore {
	ts := &TermStore{tab: map[string]*Term{}, syms: map[string]*Term{}, ufs: map[string]string{}, defs: map[int][]*Term{}, defSeen: map[int]map[int]bool{}, reach: map[int][]*Term{}}
	ts.True = ts.Bool(true)
	ts.False = ts.Bool(false)
	return ts
}

func (ts *TermStore) intern(t *Term) *Term {
	var sb strings.Builder
	fmt.Fprintf(&sb, "%d|%d|%d|", t.op, t.sort, t.aux)
	switch t.op {
	case OConst:
		switch t.sort {
		case SF64:
			fmt.Fprintf(&sb, "%x", math.Float64bits(t.f))
		case SReal, SInt:
			sb.WriteString(t.r.String())
		default:
			fmt.Fprintf(&sb, "%x", t.u)
		}
	case OSym, OUF:
		sb.WriteString(t.name)
		sb.WriteByte('|')
	}
	for _, a := range t.args {
		fmt.Fprintf(&sb, "#%d", a.id)
	}
	k := sb.String()
	if x, ok := ts.tab[k]; ok {
		return x
	}
	t.id = len(ts.all)
	ts.all = append(ts.all, t)
	ts.tab[k] = t
	return t
}

// ---------------------------------------------------------------- constants

func (ts *TermStore) Bool(b bool) *Term {
	u := uint64(0)
	if b {
		u = 1
	}
	return ts.intern(&Term{op: OConst, sort: SBool, u: u})
}

func mask(w int) uint64 {
	if w == 64 {
		return ^uint64(0)
	}
	return (uint64(1) << uint(w)) - 1
}

func (ts *TermStore) BV(w int, v uint64) *Term {
	return ts.intern(&Term{op: OConst, sort: bvSort(w), u: v & mask(w)})
}
func (ts *TermStore) F64(f float64) *Term {
	return ts.intern(&Term{op: OConst, sort: SF64, f: f})
}
func (ts *TermStore) RealRat(r *big.Rat) *Term {
	return ts.intern(&Term{op: OConst, sort: SReal, r: new(big.Rat).Set(r)})
}
func (ts *TermStore) RealF(f float64) *Term {
	r := new(big.Rat)
	if r.SetFloat64(f) == nil {
		panic(engineGap("non-finite float constant in a real-arithmetic context"))
	}
	return ts.RealRat(r)
}
func (ts *TermStore) IntC(v int64) *Term {
	return ts.intern(&Term{op: OConst, sort: SInt, r: new(big.Rat).SetInt64(v)})
}

func (ts *TermStore) Sym(name string, s Sort) *Term {
	if x, ok := ts.syms[name]; ok {
		if x.sort != s {
			panic(engineGap("symbol " + name + " redeclared with a different sort"))
		}
		return x
	}
	t := ts.intern(&Term{op: OSym, sort: s, name: name})
	ts.syms[name] = t
	return t
}

func (ts *TermStore) UF(name string, ret Sort, args ...*Term) *Term {
	var sb strings.Builder
	sb.WriteString("(declare-fun " + name + " (")
	for i, a := range args {
		if i > 0 {
			sb.WriteByte(' ')
		}
		sb.WriteString(a.sort.String())
	}
	sb.WriteString(") " + ret.String() + ")")
	d := sb.String()
	if old, ok := ts.ufs[name]; ok && old != d {
		panic(engineGap("uninterpreted function " + name + " used at two signatures"))
	}
	ts.ufs[name] = d
	if len(args) == 0 {
		return ts.Sym(name, ret)
	}
	return ts.intern(&Term{op: OUF, sort: ret, name: name, args: args})
}

// signed value of a bv const
func (t *Term) sval() int64 {
	w := t.sort.width()
	v := t.u
	if w < 64 && v&(1<<uint(w-1)) != 0 {
		v |= ^mask(w)
	}
	return int64(v)
}

// ---------------------------------------------------------------- booleans

func (ts *TermStore) Not(a *Term) *Term {
	if a.isConst() {
		return ts.Bool(a.u == 0)
	}
	if a.op == ONot {
		return a.args[0]
	}
	return ts.intern(&Term{op: ONot, sort: SBool, args: []*Term{a}})
}

func (ts *TermStore) And(a, b *Term) *Term {
	if a.isConst() {
		if a.u == 1 {
			return b
		}
		return ts.False
	}
	if b.isConst() {
		if b.u == 1 {
			return a
		}
		return ts.False
	}
	if a == b {
		return a
	}
	return ts.intern(&Term{op: OAnd, sort: SBool, args: []*Term{a, b}})
}

func (ts *TermStore) Or(a, b *Term) *Term {
	if a.isConst() {
		if a.u == 1 {
			return ts.True
		}
		return b
	}
	if b.isConst() {
		if b.u == 1 {
			return ts.True
		}
		return a
	}
	if a == b {
		return a
	}
	return ts.intern(&Term{op: OOr, sort: SBool, args: []*Term{a, b}})
}

func (ts *TermStore) AndN(xs []*Term) *Term {
	r := ts.True
	for _, x := range xs {
		r = ts.And(r, x)
	}
	return r
}

func (ts *TermStore) Ite(c, a, b *Term) *Term {
	if c.isConst() {
		if c.u == 1 {
			return a
		}
		return b
	}
	if a == b {
		return a
	}
	if a.sort != b.sort {
		panic(engineGap(fmt.Sprintf("ite arms of different sorts %v %v", a.sort, b.sort)))
	}
	if a.sort == SBool {
		if a.isTrue() && b.isFalse() {
			return c
		}
		if a.isFalse() && b.isTrue() {
			return ts.Not(c)
		}
	}
	return ts.intern(&Term{op: OIte, sort: a.sort, args: []*Term{c, a, b}})
}

// Eq is structural equality for Bool/BV/Real/Int (NOT float ==; use FEq).
func (ts *TermStore) Eq(a, b *Term) *Term {
	if a.sort != b.sort {
		panic(engineGap(fmt.Sprintf("eq of different sorts %v %v", a.sort, b.sort)))
	}
	if a == b && a.sort != SF64 {
		return ts.True
	}
	if a.isConst() && b.isConst() {
		switch a.sort {
		case SReal, SInt:
			return ts.Bool(a.r.Cmp(b.r) == 0)
		case SF64:
			return ts.Bool(math.Float64bits(a.f) == math.Float64bits(b.f))
		default:
			return ts.Bool(a.u == b.u)
		}
	}
	if a.sort == SBV64 && (a.op == OInt2Bv || b.op == OInt2Bv) {
		ia, ib := ts.intView(a), ts.intView(b)
		if ia != nil && ib != nil {
			return ts.Eq(ia, ib)
		}
	}
	if a.op == OToReal && b.isConst() && b.sort == SReal {
		a, b = b, a
	}
	if b.op == OToReal && a.isConst() && a.sort == SReal {
		if !a.r.IsInt() {
			return ts.False
		}
		n := b.args[0]
		if n.op == OBv2Int && a.r.Sign() >= 0 && a.r.Num().IsUint64() && (n.args[0].sort.width() == 64 || a.r.Num().Uint64() <= mask(n.args[0].sort.width())) {
			return ts.Eq(n.args[0], ts.BV(n.args[0].sort.width(), a.r.Num().Uint64()))
		}
		return ts.Eq(n, ts.intern(&Term{op: OConst, sort: SInt, r: new(big.Rat).Set(a.r)}))
	}

	if a.sort == SBool {
		if a.isConst() {
			a, b = b, a
		}
		if b.isConst() {
			if b.u == 1 {
				return a
			}
			return ts.Not(a)
		}
	}
	if a.id > b.id {
		a, b = b, a
	}
	return ts.intern(&Term{op: OEq, sort: SBool, args: []*Term{a, b}})
}

// ---------------------------------------------------------------- bit-vectors

func (ts *TermStore) bvbin(op Op, a, b *Term) *Term {
	if a.sort != b.sort || !a.sort.isBV() {
		panic(engineGap(fmt.Sprintf("bv op %d on sorts %v %v", op, a.sort, b.sort)))
	}
	w := a.sort.width()
	m := mask(w)
	if a.isConst() && b.isConst() {
		x, y := a.u, b.u
		sx, sy := a.sval(), b.sval()
		var r uint64
		switch op {
		case OBvAdd:
			r = x + y
		case OBvSub:
			r = x - y
		case OBvMul:
			r = x * y
		case OBvUDiv:
			if y == 0 {
				r = m
			} else {
				r = x / y
			}
		case OBvURem:
			if y == 0 {
				r = x
			} else {
				r = x % y
			}
		case OBvSDiv:
			if sy == 0 {
				if sx >= 0 {
					r = m
				} else {
					r = 1
				}
			} else if sy == -1 {
				r = uint64(-sx)
			} else {
				r = uint64(sx / sy)
			}
		case OBvSRem:
			if sy == 0 {
				r = x
			} else if sy == -1 {
				r = 0
			} else {
				r = uint64(sx % sy)
			}
		case OBvAnd:
			r = x & y
		case OBvOr:
			r = x | y
		case OBvXor:
			r = x ^ y
		case OBvShl:
			if y >= uint64(w) {
				r = 0
			} else {
				r = x << y
			}
		case OBvLshr:
			if y >= uint64(w) {
				r = 0
			} else {
				r = x >> y
			}
		case OBvAshr:
			if y >= uint64(w) {
				if sx < 0 {
					r = m
				} else {
					r = 0
				}
			} else {
				r = uint64(sx >> y)
			}
		}
		return ts.BV(w, r)
	}
	// int2bv is a ring homomorphism Z -> Z/2^w: keep +,-,* of Int-valued conversions in integer arithmetic
	if (op == OBvAdd || op == OBvSub || op == OBvMul) && (a.op == OInt2Bv || b.op == OInt2Bv) {
		toInt := func(x *Term) *Term {
			if x.op == OInt2Bv {
				return x.args[0]
			}
			if x.isConst() {
				return ts.IntC(x.sval())
			}
			return nil
		}
		ia, ib := toInt(a), toInt(b)
		if ia != nil && ib != nil {
			var r *Term
			switch op {
			case OBvAdd:
				r = ts.ibin(OIAdd, ia, ib)
			case OBvSub:
				r = ts.ibin(OISub, ia, ib)
			default:
				r = ts.ibin(OIMul, ia, ib)
			}
			return ts.Int2Bv(r, w)
		}
	}
	// division / remainder by a constant power of two: shifts and masks (much cheaper to bit-blast)
	if b.isConst() && b.u != 0 && b.u&(b.u-1) == 0 && b.u != 1 && !(w < 64 && b.u == 1<<uint(w-1)) && !(w == 64 && b.u == 1<<63) {
		k := uint64(bits.TrailingZeros64(b.u))
		switch op {
		case OBvUDiv:
			return ts.bvbin(OBvLshr, a, ts.BV(w, k))
		case OBvURem:
			return ts.bvbin(OBvAnd, a, ts.BV(w, b.u-1))
		case OBvSDiv, OBvSRem:
			// q = (a + ((a >>s (w-1)) & (2^k-1))) >>s k   (round toward zero)
			sign := ts.bvbin(OBvAshr, a, ts.BV(w, uint64(w-1)))
			bias := ts.bvbin(OBvAnd, sign, ts.BV(w, b.u-1))
			q := ts.bvbin(OBvAshr, ts.bvbin(OBvAdd, a, bias), ts.BV(w, k))
			if op == OBvSDiv {
				return q
			}
			return ts.bvbin(OBvSub, a, ts.bvbin(OBvShl, q, ts.BV(w, k)))
		}
	}
	// light identities
	switch op {
	case OBvAdd, OBvOr, OBvXor:
		if a.isConst() && a.u == 0 {
			return b
		}
		if b.isConst() && b.u == 0 {
			return a
		}
	case OBvSub, OBvShl, OBvLshr, OBvAshr:
		if b.isConst() && b.u == 0 {
			return a
		}
	case OBvMul:
		if a.isConst() && a.u == 1 {
			return b
		}
		if b.isConst() && b.u == 1 {
			return a
		}
		if (a.isConst() && a.u == 0) || (b.isConst() && b.u == 0) {
			return ts.BV(w, 0)
		}
	case OBvAnd:
		if (a.isConst() && a.u == 0) || (b.isConst() && b.u == 0) {
			return ts.BV(w, 0)
		}
		if a.isConst() && a.u == m {
			return b
		}
		if b.isConst() && b.u == m {
			return a
		}
	case OBvUDiv, OBvSDiv:
		if b.isConst() && b.u == 1 {
			return a
		}
	}
	return ts.intern(&Term{op: op, sort: a.sort, args: []*Term{a, b}})
}

func (ts *TermStore) bvcmp(op Op, a, b *Term) *Term {
	if a.sort != b.sort || !a.sort.isBV() {
		panic(engineGap(fmt.Sprintf("bv cmp on sorts %v %v", a.sort, b.sort)))
	}
	if a.isConst() && b.isConst() {
		switch op {
		case OBvUlt:
			return ts.Bool(a.u < b.u)
		case OBvUle:
			return ts.Bool(a.u <= b.u)
		case OBvSlt:
			return ts.Bool(a.sval() < b.sval())
		case OBvSle:
			return ts.Bool(a.sval() <= b.sval())
		}
	}
	if a == b {
		return ts.Bool(op == OBvUle || op == OBvSle)
	}
	// comparisons of an Int-valued conversion (int2bv n, n assumed in the int64 range) with a constant
	// stay in integer arithmetic
	if a.sort == SBV64 && (a.op == OInt2Bv || b.op == OInt2Bv) {
		ia, ib := ts.intView(a), ts.intView(b)
		if ia != nil && ib != nil {
			// Int-valued machine integers (results of float->int conversions in the real reading) are
			// assumed to stay inside the int64 range: the range fact is attached to the Int term as an axiom
			switch op {
			case OBvSlt:
				return ts.icmp(OILt, ia, ib)
			case OBvSle:
				return ts.icmp(OILe, ia, ib)
			case OBvUlt, OBvUle:
				if b.isConst() && b.sval() >= 0 {
					if op == OBvUlt {
						return ts.And(ts.icmp(OILe, ts.IntC(0), ia), ts.icmp(OILt, ia, ib))
					}
					return ts.And(ts.icmp(OILe, ts.IntC(0), ia), ts.icmp(OILe, ia, ib))
				}
			}
		}
	}
	return ts.intern(&Term{op: op, sort: SBool, args: []*Term{a, b}})
}

func (ts *TermStore) BvNot(a *Term) *Term {
	if a.isConst() {
		return ts.BV(a.sort.width(), ^a.u)
	}
	return ts.intern(&Term{op: OBvNot, sort: a.sort, args: []*Term{a}})
}
func (ts *TermStore) BvNeg(a *Term) *Term {
	if a.isConst() {
		return ts.BV(a.sort.width(), -a.u)
	}
	return ts.intern(&Term{op: OBvNeg, sort: a.sort, args: []*Term{a}})
}

// Resize converts a bit-vector to width w (sign- or zero-extending, or truncating).
func (ts *TermStore) Resize(a *Term, w int, signed bool) *Term {
	aw := a.sort.width()
	if aw == w {
		return a
	}
	if a.isConst() {
		if w > aw && signed {
			return ts.BV(w, uint64(a.sval()))
		}
		return ts.BV(w, a.u)
	}
	if w < aw {
		return ts.intern(&Term{op: OExtract, sort: bvSort(w), args: []*Term{a}, aux: w})
	}
	op := OZext
	if signed {
		op = OSext
	}
	return ts.intern(&Term{op: op, sort: bvSort(w), args: []*Term{a}, aux: w - aw})
}

// ---------------------------------------------------------------- floats (FP theory)

func goMin(x, y float64) float64 { return math.Min(x, y) }

func (ts *TermStore) fbin(op Op, a, b *Term) *Term {
	if a.isConst() && b.isConst() {
		switch op {
		case OFAdd:
			return ts.F64(a.f + b.f)
		case OFSub:
			return ts.F64(a.f - b.f)
		case OFMul:
			return ts.F64(a.f * b.f)
		case OFDiv:
			return ts.F64(a.f / b.f)
		}
	}
	return ts.intern(&Term{op: op, sort: SF64, args: []*Term{a, b}})
}

func (ts *TermStore) fcmp(op Op, a, b *Term) *Term {
	if a.isConst() && b.isConst() {
		switch op {
		case OFLt:
			return ts.Bool(a.f < b.f)
		case OFLe:
			return ts.Bool(a.f <= b.f)
		case OFEq:
			return ts.Bool(a.f == b.f)
		}
	}
	// comparisons with a NaN constant are false
	if (a.isConst() && math.IsNaN(a.f)) || (b.isConst() && math.IsNaN(b.f)) {
		return ts.False
	}
	return ts.intern(&Term{op: op, sort: SBool, args: []*Term{a, b}})
}

func (ts *TermStore) fun1(op Op, a *Term) *Term {
	if a.isConst() {
		switch op {
		case OFNeg:
			return ts.F64(-a.f)
		case OFAbs:
			return ts.F64(math.Abs(a.f))
		case OFSqrt:
			return ts.F64(math.Sqrt(a.f))
		case OFFloor:
			return ts.F64(math.Floor(a.f))
		case OFCeil:
			return ts.F64(math.Ceil(a.f))
		case OFTrunc:
			return ts.F64(math.Trunc(a.f))
		case OFIsNaN:
			return ts.Bool(math.IsNaN(a.f))
		case OFIsInf:
			return ts.Bool(math.IsInf(a.f, 0))
		case OFIsNeg:
			return ts.Bool(math.Signbit(a.f))
		}
	}
	s := SF64
	if op == OFIsNaN || op == OFIsInf || op == OFIsNeg {
		s = SBool
	}
	return ts.intern(&Term{op: op, sort: s, args: []*Term{a}})
}

// ---------------------------------------------------------------- reals / ints

func (ts *TermStore) rbin(op Op, a, b *Term) *Term {
	if a.sort != SReal || b.sort != SReal {
		panic(engineGap(fmt.Sprintf("real op on sorts %v %v", a.sort, b.sort)))
	}
	if a.isConst() && b.isConst() {
		r := new(big.Rat)
		switch op {
		case ORAdd:
			return ts.RealRat(r.Add(a.r, b.r))
		case ORSub:
			return ts.RealRat(r.Sub(a.r, b.r))
		case ORMul:
			return ts.RealRat(r.Mul(a.r, b.r))
		case ORDiv:
			if b.r.Sign() != 0 {
				return ts.RealRat(r.Quo(a.r, b.r))
			}
		}
	}
	switch op {
	case ORAdd:
		if a.isConst() && a.r.Sign() == 0 {
			return b
		}
		if b.isConst() && b.r.Sign() == 0 {
			return a
		}
	case ORSub:
		if b.isConst() && b.r.Sign() == 0 {
			return a
		}
	case ORMul:
		one := big.NewRat(1, 1)
		if a.isConst() && a.r.Cmp(one) == 0 {
			return b
		}
		if b.isConst() && b.r.Cmp(one) == 0 {
			return a
		}
		if (a.isConst() && a.r.Sign() == 0) || (b.isConst() && b.r.Sign() == 0) {
			return ts.RealRat(new(big.Rat))
		}
	case ORDiv:
		one := big.NewRat(1, 1)
		if b.isConst() && b.r.Cmp(one) == 0 {
			return a
		}
		if b.isConst() && b.r.Sign() != 0 {
			// division by a constant is multiplication by its reciprocal (keeps queries linear)
			return ts.rbin(ORMul, a, ts.RealRat(new(big.Rat).Inv(b.r)))
		}
	}
	return ts.intern(&Term{op: op, sort: SReal, args: []*Term{a, b}})
}

func (ts *TermStore) rcmp(op Op, a, b *Term) *Term {
	if a.isConst() && b.isConst() {
		c := a.r.Cmp(b.r)
		if op == ORLt {
			return ts.Bool(c < 0)
		}
		return ts.Bool(c <= 0)
	}
	if a == b {
		return ts.Bool(op == ORLe)
	}
	return ts.intern(&Term{op: op, sort: SBool, args: []*Term{a, b}})
}

func (ts *TermStore) RNeg(a *Term) *Term {
	if a.isConst() {
		return ts.RealRat(new(big.Rat).Neg(a.r))
	}
	if a.op == ORNeg {
		return a.args[0]
	}
	return ts.intern(&Term{op: ORNeg, sort: SReal, args: []*Term{a}})
}

func (ts *TermStore) ibin(op Op, a, b *Term) *Term {
	if a.isConst() && b.isConst() {
		r := new(big.Rat)
		switch op {
		case OIAdd:
			return ts.intern(&Term{op: OConst, sort: SInt, r: r.Add(a.r, b.r)})
		case OISub:
			return ts.intern(&Term{op: OConst, sort: SInt, r: r.Sub(a.r, b.r)})
		case OIMul:
			return ts.intern(&Term{op: OConst, sort: SInt, r: r.Mul(a.r, b.r)})
		}
	}
	return ts.intern(&Term{op: op, sort: SInt, args: []*Term{a, b}})
}
func (ts *TermStore) icmp(op Op, a, b *Term) *Term {
	if a.isConst() && b.isConst() {
		c := a.r.Cmp(b.r)
		if op == OILt {
			return ts.Bool(c < 0)
		}
		return ts.Bool(c <= 0)
	}
	return ts.intern(&Term{op: op, sort: SBool, args: []*Term{a, b}})
}
func (ts *TermStore) ToReal(a *Term) *Term {
	if a.isConst() {
		return ts.RealRat(a.r)
	}
	return ts.intern(&Term{op: OToReal, sort: SReal, args: []*Term{a}})
}
func (ts *TermStore) Bv2Int(a *Term, signed bool) *Term {
	if a.isConst() {
		if signed {
			return ts.IntC(a.sval())
		}
		return ts.intern(&Term{op: OConst, sort: SInt, r: new(big.Rat).SetInt(new(big.Int).SetUint64(a.u))})
	}
	if a.op == OInt2Bv && signed && a.sort == SBV64 {
		// int -> (Int-valued) bit-vector -> int: the Int itself, assumed inside the int64 range
		n := a.args[0]
		ts.Define(n, ts.inInt64(n))
		return n
	}
	op := OBv2Int
	if signed {
		op = OBv2IntS
	}
	return ts.intern(&Term{op: op, sort: SInt, args: []*Term{a}})
}

// ---------------------------------------------------------------- printing

func smtName(t *Term) string { return fmt.Sprintf("t%d", t.id) }

func smtSym(name string) string {
	// quote always: harness names may contain dots, brackets
	return "|" + strings.ReplaceAll(name, "|", "_") + "|"
}

func ratSMT(r *big.Rat, isInt bool) string {
	neg := r.Sign() < 0
	a := new(big.Rat).Abs(r)
	var s string
	if isInt {
		s = a.Num().String()
	} else if a.IsInt() {
		s = a.Num().String() + ".0"
	} else {
		s = "(/ " + a.Num().String() + ".0 " + a.Denom().String() + ".0)"
	}
	if neg {
		return "(- " + s + ")"
	}
	return s
}

// ref returns how a term is referenced inside another term's body.
func ref(t *Term) string {
	switch t.op {
	case OConst:
		switch t.sort {
		case SBool:
			if t.u == 1 {
				return "true"
			}
			return "false"
		case SF64:
			return fmt.Sprintf("((_ to_fp 11 53) #x%016x)", math.Float64bits(t.f))
		case SReal:
			return ratSMT(t.r, false)
		case SInt:
			return ratSMT(t.r, true)
		default:
			w := t.sort.width()
			return fmt.Sprintf("#x%0*x", w/4, t.u)
		}
	case OSym:
		return smtSym(t.name)
	}
	return smtName(t)
}

var opSMT = map[Op]string{
	ONot: "not", OAnd: "and", OOr: "or", OIte: "ite", OEq: "=",
	OBvAdd: "bvadd", OBvSub: "bvsub", OBvMul: "bvmul", OBvUDiv: "bvudiv", OBvSDiv: "bvsdiv",
	OBvURem: "bvurem", OBvSRem: "bvsrem", OBvAnd: "bvand", OBvOr: "bvor", OBvXor: "bvxor",
	OBvShl: "bvshl", OBvLshr: "bvlshr", OBvAshr: "bvashr", OBvNot: "bvnot", OBvNeg: "bvneg",
	OBvUlt: "bvult", OBvSlt: "bvslt", OBvUle: "bvule", OBvSle: "bvsle",
	OFAdd: "fp.add RNE", OFSub: "fp.sub RNE", OFMul: "fp.mul RNE", OFDiv: "fp.div RNE",
	OFNeg: "fp.neg", OFAbs: "fp.abs", OFSqrt: "fp.sqrt RNE", OFLt: "fp.lt", OFLe: "fp.leq", OFEq: "fp.eq",
	OFIsNaN: "fp.isNaN", OFIsInf: "fp.isInfinite", OFFloor: "fp.roundToIntegral RTN",
	OFCeil: "fp.roundToIntegral RTP", OFTrunc: "fp.roundToIntegral RTZ",
	OFRoundAway: "fp.roundToIntegral RNA", OFRoundEven: "fp.roundToIntegral RNE",
	OFFromS: "(_ to_fp 11 53) RNE", OFFromU: "(_ to_fp_unsigned 11 53) RNE",
	OFFromBits: "(_ to_fp 11 53)",
	ORAdd:      "+", ORSub: "-", ORMul: "*", ORDiv: "/", ORNeg: "-", ORLt: "<", ORLe: "<=",
	OToReal: "to_real", OIAdd: "+", OISub: "-", OIMul: "*", OILt: "<", OILe: "<=",
}

// body returns the SMT-LIB body of a non-leaf term.
func body(t *Term) string {
	var sb strings.Builder
	switch t.op {
	case OUF:
		sb.WriteString("(" + smtSym(t.name))
	case OZext:
		fmt.Fprintf(&sb, "((_ zero_extend %d)", t.aux)
	case OSext:
		fmt.Fprintf(&sb, "((_ sign_extend %d)", t.aux)
	case OExtract:
		fmt.Fprintf(&sb, "((_ extract %d 0)", t.aux-1)
	case OFToSBV:
		fmt.Fprintf(&sb, "((_ fp.to_sbv %d) RTZ", t.aux)
	case OFToUBV:
		fmt.Fprintf(&sb, "((_ fp.to_ubv %d) RTZ", t.aux)
	case OFIsNeg:
		// sign bit set and not NaN: isNegative covers -0, -x, -inf
		sb.WriteString("(fp.isNegative")
	case OBv2Int:
		sb.WriteString("(bv2nat")
	case OInt2Bv:
		fmt.Fprintf(&sb, "((_ int2bv %d)", t.aux)
	case OBv2IntS:
		// signed value: ite(msb, nat - 2^w, nat)
		a := ref(t.args[0])
		w := t.args[0].sort.width()
		p := new(big.Int).Lsh(big.NewInt(1), uint(w))
		return fmt.Sprintf("(ite (bvslt %s #x%0*x) (- (bv2nat %s) %s) (bv2nat %s))", a, w/4, 0, a, p.String(), a)
	default:
		s, ok := opSMT[t.op]
		if !ok {
			panic(fmt.Sprintf("no SMT for op %d", t.op))
		}
		sb.WriteString("(" + s)
	}
	for _, a := range t.args {
		sb.WriteByte(' ')
		sb.WriteString(ref(a))
	}
	sb.WriteByte(')')
	return sb.String()
}

// clz-free trailing zeros for constants
func tz32(x uint32) int { return bits.TrailingZeros32(x) }

// String renders a term fully (for diagnostics / evidence samples), with a size cap.
func (t *Term) String() string {
	var sb strings.Builder
	t.str(&sb, 0)
	s := sb.String()
	if len(s) > 400 {
		s = s[:400] + "…"
	}
	return s
}
func (t *Term) str(sb *strings.Builder, d int) {
	if sb.Len() > 400 {
		return
	}
	if t.op == OConst || t.op == OSym {
		if t.op == OConst && t.sort == SF64 {
			fmt.Fprintf(sb, "%g", t.f)
			return
		}
		if t.op == OConst && t.sort.isBV() {
			fmt.Fprintf(sb, "%d", t.sval())
			return
		}
		if t.op == OSym {
			sb.WriteString(t.name)
			return
		}
		sb.WriteString(ref(t))
		return
	}
	if d > 6 {
		sb.WriteString(smtName(t))
		return
	}
	name := opSMT[t.op]
	if t.op == OUF {
		name = t.name
	}
	if name == "" {
		name = fmt.Sprintf("op%d", t.op)
	}
	sb.WriteString("(" + name)
	for _, a := range t.args {
		sb.WriteByte(' ')
		a.str(sb, d+1)
	}
	sb.WriteByte(')')
}

type engineGapErr struct{ msg string }

func engineGap(msg string) engineGapErr { return engineGapErr{msg} }
func (e engineGapErr) Error() string    { return "encoder gap: " + e.msg }

// Define attaches a definitional axiom to a witness term. The axiom is asserted only in
// queries that mention the witness (directly or through other axioms).
func (ts *TermStore) Define(w *Term, ax *Term) {
	if ax.isTrue() {
		return
	}
	m := ts.defSeen[w.id]
	if m == nil {
		m = map[int]bool{}
		ts.defSeen[w.id] = m
	}
	if m[ax.id] {
		return
	}
	m[ax.id] = true
	ts.defs[w.id] = append(ts.defs[w.id], ax)
	// any cached reachability that includes w is stale; simplest: drop the cache
	if len(ts.reach) > 0 {
		ts.reach = map[int][]*Term{}
	}
}

// Axioms returns the definitional axioms relevant to t (transitively).
func (ts *TermStore) Axioms(t *Term) []*Term {
	if len(ts.defs) == 0 {
		return nil
	}
	if r, ok := ts.reach[t.id]; ok {
		return r
	}
	seenT := map[int]bool{}
	seenA := map[int]bool{}
	var out []*Term
	stack := []*Term{t}
	for len(stack) > 0 {
		x := stack[len(stack)-1]
		stack = stack[:len(stack)-1]
		if seenT[x.id] {
			continue
		}
		seenT[x.id] = true
		if axs, ok := ts.defs[x.id]; ok {
			for _, a := range axs {
				if !seenA[a.id] {
					seenA[a.id] = true
					out = append(out, a)
					stack = append(stack, a)
				}
			}
		}
		for _, a := range x.args {
			if a.op != OConst && !seenT[a.id] {
				stack = append(stack, a)
			}
		}
	}
	ts.reach[t.id] = out
	return out
}

// Int2Bv converts an Int term to a bit-vector (mod 2^w).
func (ts *TermStore) Int2Bv(n *Term, w int) *Term {
	if n.isConst() {
		z := new(big.Int).Set(n.r.Num())
		m := new(big.Int).Lsh(big.NewInt(1), uint(w))
		z.Mod(z, m)
		return ts.BV(w, z.Uint64())
	}
	if (n.op == OBv2Int || n.op == OBv2IntS) && n.args[0].sort.width() == w {
		return n.args[0]
	}
	return ts.intern(&Term{op: OInt2Bv, sort: bvSort(w), args: []*Term{n}, aux: w})
}

// inInt64: -2^63 <= n < 2^63
func (ts *TermStore) inInt64(n *Term) *Term {
	if n.isConst() {
		return ts.Bool(n.r.Num().IsInt64())
	}
	lim := new(big.Int).Lsh(big.NewInt(1), 63)
	lo := ts.intern(&Term{op: OConst, sort: SInt, r: new(big.Rat).SetInt(new(big.Int).Neg(lim))})
	hi := ts.intern(&Term{op: OConst, sort: SInt, r: new(big.Rat).SetInt(lim)})
	return ts.And(ts.icmp(OILe, lo, n), ts.icmp(OILt, n, hi))
}

// intView returns the Int term denoted by a 64-bit value that is an int2bv conversion or a
// constant (nil otherwise) and records the assumption that it lies in the int64 range.
func (ts *TermStore) intView(x *Term) *Term {
	if x.op == OInt2Bv {
		n := x.args[0]
		ts.Define(n, ts.inInt64(n))
		return n
	}
	if x.isConst() {
		return ts.IntC(x.sval())
	}
	return nil
}

package main

// Symbolic interpreter over go/ssa.

import (
	"fmt"
	"go/constant"
	"go/token"
	"go/types"
	"math"
	"strings"

	"golang.org/x/tools/go/ssa"
)

type fnInfo struct {
	idx map[ssa.Value]int
	n   int
}

type frame struct {
	fn     *ssa.Function
	info   *fnInfo
	locals []Value
	bind   []Value
	defers []func()
}

func (st *State) info(fn *ssa.Function) *fnInfo {
	if fi, ok := st.fnInfos[fn]; ok {
		return fi
	}
	fi := &fnInfo{idx: map[ssa.Value]int{}}
	for _, p := range fn.Params {
		fi.idx[p] = fi.n
		fi.n++
	}
	for _, b := range fn.Blocks {
		for _, ins := range b.Instrs {
			if v, ok := ins.(ssa.Value); ok {
				fi.idx[v] = fi.n
				fi.n++
			}
		}
	}
	st.fnInfos[fn] = fi
	return fi
}

func (st *State) newObj(cells []Value, label string) *Obj {
	st.nextObj++
	return &Obj{id: st.nextObj, cells: cells, epoch: st.epoch, label: label}
}

func (st *State) constValue(c *ssa.Const) Value {
	t := c.Type()
	if c.Value == nil {
		return st.e.zero(st.ts, t)
	}
	switch u := t.Underlying().(type) {
	case *types.Basic:
		if w, _, ok := basicWidth(u); ok {
			if i, exact := constant.Int64Val(constant.ToInt(c.Value)); exact {
				return st.ts.BV(w, uint64(i))
			}
			ui, _ := constant.Uint64Val(constant.ToInt(c.Value))
			return st.ts.BV(w, ui)
		}
		switch {
		case u.Info()&types.IsBoolean != 0:
			return st.ts.Bool(constant.BoolVal(c.Value))
		case u.Info()&types.IsFloat != 0:
			f, _ := constant.Float64Val(c.Value)
			if u.Kind() == types.Float32 {
				f = float64(float32(f))
			}
			return st.ts.F64(f)
		case u.Info()&types.IsString != 0:
			return StrV{s: constant.StringVal(c.Value)}
		}
	}
	panic(engineGap(fmt.Sprintf("constant of type %v", t)))
}

func (st *State) get(fr *frame, v ssa.Value) Value {
	switch x := v.(type) {
	case *ssa.Const:
		return st.constValue(x)
	case *ssa.Global:
		return Ptr{obj: st.global(x)}
	case *ssa.Function:
		return ClosureV{fn: x}
	case *ssa.Builtin:
		return x
	case *ssa.FreeVar:
		for i, fv := range fr.fn.FreeVars {
			if fv == x {
				return fr.bind[i]
			}
		}
		panic(engineGap("free variable not bound"))
	}
	i, ok := fr.info.idx[v]
	if !ok {
		panic(engineGap(fmt.Sprintf("unknown SSA value %s", v.Name())))
	}
	if st.known != nil {
		if t, isT := fr.locals[i].(*Term); isT {
			if c, hit := st.known[t.id]; hit {
				return c
			}
		}
	}
	return fr.locals[i]
}

func (st *State) set(fr *frame, v ssa.Value, x Value) {
	fr.locals[fr.info.idx[v]] = x
}

func (st *State) global(g *ssa.Global) *Obj {
	if o, ok := st.globals[g]; ok {
		return o
	}
	var o *Obj
	if p, ok := st.pristine[g]; ok {
		o = &Obj{id: -p.id, cells: cloneCells(p.cells), label: g.Name()}
	} else {
		et := g.Type().(*types.Pointer).Elem()
		o = &Obj{cells: st.e.zeroInto(st.ts, et, nil), label: g.Name()}
		st.nextObj++
		o.id = st.nextObj
	}
	o.isGlobal = g.Pkg != nil && st.e.inRepoPkg(g.Pkg.Pkg.Path()) && !strings.HasPrefix(g.Name(), "vx") && !strings.HasPrefix(g.Name(), "init$")
	st.globals[g] = o
	return o
}

const maxDepth = 400

func (st *State) callFunction(fn *ssa.Function, args []Value, bind []Value) Value {
	if stub, ok := st.h.stubs[fn.String()]; ok && stub != nil {
		fn = stub
	}
	if v, handled := st.intrinsic(fn, args); handled {
		return v
	}
	if fn.Blocks == nil {
		panic(engineGap("call to external function " + fn.String()))
	}
	if !st.e.interpretable(fn) {
		panic(engineGap("call into a package that is neither interpreted nor modelled: " + fn.String()))
	}
	st.depth++
	if st.depth > maxDepth {
		panic(pathEnd{"limit", "call depth limit"})
	}
	defer func() { st.depth-- }()
	if st.depth <= 3 || st.e.inRepo(fn) {
		st.noteFunc(fn)
	}
	if st.isLibraryFn(fn) {
		st.inLibrary++
		defer func() { st.inLibrary-- }()
	} else if st.inLibrary > 0 && st.e.inRepo(fn) {
		// a harness stub called from library code: its own stores are not the library's
		saved := st.inLibrary
		st.inLibrary = 0
		defer func() { st.inLibrary = saved }()
	}
	fi := st.info(fn)
	fr := &frame{fn: fn, info: fi, locals: make([]Value, fi.n), bind: bind}
	for i, p := range fn.Params {
		if i < len(args) {
			fr.locals[fi.idx[p]] = args[i]
		}
	}
	return st.exec(fr)
}

func (st *State) noteFunc(fn *ssa.Function) {
	if st.noted == nil {
		st.noted = map[*ssa.Function]bool{}
	}
	if st.noted[fn] {
		return
	}
	st.noted[fn] = true
}

func (st *State) exec(fr *frame) Value {
	b := fr.fn.Blocks[0]
	var prev *ssa.BasicBlock
	for {
		// phis first, in parallel
		nphi := 0
		for _, ins := range b.Instrs {
			if _, ok := ins.(*ssa.Phi); ok {
				nphi++
			} else {
				break
			}
		}
		if nphi > 0 {
			pi := -1
			for i, p := range b.Preds {
				if p == prev {
					pi = i
					break
				}
			}
			vals := make([]Value, nphi)
			for i := 0; i < nphi; i++ {
				vals[i] = st.get(fr, b.Instrs[i].(*ssa.Phi).Edges[pi])
			}
			for i := 0; i < nphi; i++ {
				st.set(fr, b.Instrs[i].(*ssa.Phi), vals[i])
			}
		}
		var next *ssa.BasicBlock
		for _, ins := range b.Instrs[nphi:] {
			st.steps++
			if st.steps > st.h.maxSteps {
				panic(pathEnd{"limit", "step limit reached (unwinding bound too small)"})
			}
			switch x := ins.(type) {
			case *ssa.If:
				c := st.get(fr, x.Cond).(*Term)
				if st.h.ifconv && !c.isConst() {
					if nb, ok := st.tryIfConvert(fr, b, c); ok {
						next = nb
						break
					}
				}
				if st.branch(c) {
					next = b.Succs[0]
				} else {
					next = b.Succs[1]
				}
			case *ssa.Jump:
				next = b.Succs[0]
			case *ssa.Return:
				switch len(x.Results) {
				case 0:
					return nil
				case 1:
					return st.get(fr, x.Results[0])
				}
				t := make(TupleV, len(x.Results))
				for i, r := range x.Results {
					t[i] = st.get(fr, r)
				}
				return t
			case *ssa.Panic:
				v := st.get(fr, x.X)
				panic(goPanic{msg: "panic: " + st.panicString(v), val: v})
			case *ssa.Store:
				p := st.get(fr, x.Addr).(Ptr)
				st.store(p, x.Val.Type(), st.get(fr, x.Val))
			case *ssa.MapUpdate:
				st.mapUpdate(st.get(fr, x.Map).(MapV), st.get(fr, x.Key), st.get(fr, x.Value))
			case *ssa.DebugRef:
			case *ssa.RunDefers:
				for i := len(fr.defers) - 1; i >= 0; i-- {
					fr.defers[i]()
				}
				fr.defers = nil
			case *ssa.Defer:
				// the callee and its arguments are evaluated now, the call runs at RunDefers (no recover support)
				call := x.Call
				args := make([]Value, len(call.Args))
				for i, a := range call.Args {
					args[i] = st.get(fr, a)
				}
				var recv Value
				var fv Value
				if call.IsInvoke() {
					recv = st.get(fr, call.Value)
				} else {
					fv = st.get(fr, call.Value)
				}
				cc := call
				fr.defers = append(fr.defers, func() { st.deferredCall(&cc, recv, fv, args) })
			case *ssa.Go, *ssa.Send, *ssa.Select:
				panic(engineGap(fmt.Sprintf("unsupported instruction %T in %s", ins, fr.fn)))
			case ssa.Value:
				st.set(fr, x, st.evalInstr(fr, x))
			default:
				panic(engineGap(fmt.Sprintf("unsupported instruction %T", ins)))
			}
			if next != nil {
				break
			}
		}
		if next == nil {
			panic(engineGap("block without terminator in " + fr.fn.String()))
		}
		prev, b = b, next
	}
}

func (st *State) panicString(v Value) string {
	if i, ok := v.(IfaceV); ok {
		switch x := i.v.(type) {
		case StrV:
			if x.sym == nil {
				return x.s
			}
		case Ptr:
			// error value created by errors.New
			if x.obj != nil && len(x.obj.cells) == 1 {
				if s, ok := x.obj.cells[0].(StrV); ok {
					return s.s
				}
			}
		}
		if i.t != nil {
			return "value of type " + i.t.String()
		}
	}
	return "?"
}

func (st *State) evalInstr(fr *frame, ins ssa.Value) Value {
	switch x := ins.(type) {
	case *ssa.Alloc:
		et := x.Type().(*types.Pointer).Elem()
		return Ptr{obj: st.newObj(st.e.zeroInto(st.ts, et, nil), x.Comment)}
	case *ssa.BinOp:
		return st.binop(x.Op, st.get(fr, x.X), st.get(fr, x.Y), x.X.Type(), x.Y.Type())
	case *ssa.UnOp:
		v := st.get(fr, x.X)
		switch x.Op {
		case token.MUL:
			return st.load(v.(Ptr), x.Type())
		case token.SUB:
			t := v.(*Term)
			if isFloatType(x.Type()) {
				return st.fneg(t)
			}
			return st.ts.BvNeg(t)
		case token.NOT:
			return st.ts.Not(v.(*Term))
		case token.XOR:
			return st.ts.BvNot(v.(*Term))
		}
		panic(engineGap("unary op " + x.Op.String()))
	case *ssa.Call:
		return st.doCall(fr, &x.Call)
	case *ssa.ChangeType:
		return st.get(fr, x.X)
	case *ssa.Convert:
		return st.convert(st.get(fr, x.X), x.X.Type(), x.Type())
	case *ssa.ChangeInterface:
		return st.get(fr, x.X)
	case *ssa.MakeInterface:
		return IfaceV{t: x.X.Type(), v: st.get(fr, x.X)}
	case *ssa.TypeAssert:
		return st.typeAssert(x, st.get(fr, x.X).(IfaceV))
	case *ssa.Extract:
		return st.get(fr, x.Tuple).(TupleV)[x.Index]
	case *ssa.Field:
		c := st.get(fr, x.X).(CellsV)
		stt := x.X.Type().Underlying().(*types.Struct)
		off := fieldOffset(stt, x.Field)
		ft := stt.Field(x.Field).Type()
		n := cellCount(ft)
		if isAggregate(ft) {
			return CellsV{cloneCells(c.c[off : off+n])}
		}
		return c.c[off]
	case *ssa.FieldAddr:
		p := st.get(fr, x.X).(Ptr)
		if p.obj == nil {
			panic(goPanic{msg: "runtime error: nil pointer dereference"})
		}
		stt := x.X.Type().Underlying().(*types.Pointer).Elem().Underlying().(*types.Struct)
		p.off += fieldOffset(stt, x.Field)
		return p
	case *ssa.Index:
		return st.indexValue(fr, x)
	case *ssa.IndexAddr:
		return st.indexAddr(fr, x)
	case *ssa.Lookup:
		return st.lookup(fr, x)
	case *ssa.MakeMap:
		return MapV{m: &MapObj{}}
	case *ssa.MakeSlice:
		et := x.Type().Underlying().(*types.Slice).Elem()
		ln := st.concreteInt(st.get(fr, x.Len), "make: len")
		cp := st.concreteInt(st.get(fr, x.Cap), "make: cap")
		if ln < 0 || cp < ln {
			panic(goPanic{msg: "runtime error: makeslice: len out of range"})
		}
		if cp > 1<<22 {
			panic(pathEnd{"limit", "makeslice larger than 2^22 elements"})
		}
		esz := cellCount(et)
		cells := make([]Value, 0, int(cp)*esz)
		for i := int64(0); i < cp; i++ {
			cells = st.e.zeroInto(st.ts, et, cells)
		}
		return SliceV{obj: st.newObj(cells, "makeslice"), len: int(ln), cap: int(cp), esz: esz}
	case *ssa.MakeClosure:
		b := make([]Value, len(x.Bindings))
		for i, v := range x.Bindings {
			b[i] = st.get(fr, v)
		}
		return ClosureV{fn: x.Fn.(*ssa.Function), bind: b}
	case *ssa.Slice:
		return st.sliceOp(fr, x)
	case *ssa.Range:
		v := st.get(fr, x.X)
		switch m := v.(type) {
		case MapV:
			it := &rangeIter{m: m.m}
			if m.m != nil {
				for i := range m.m.keys {
					if !m.m.dead[i] {
						it.keys = append(it.keys, i)
					}
				}
				if st.e.reverseMaps {
					for i, j := 0, len(it.keys)-1; i < j; i, j = i+1, j-1 {
						it.keys[i], it.keys[j] = it.keys[j], it.keys[i]
					}
				}
			}
			return it
		case StrV:
			if m.sym != nil {
				return &rangeIter{isS: true, sym: m.sym}
			}
			return &rangeIter{isS: true, str: m.s}
		}
		panic(engineGap("range over unsupported value"))
	case *ssa.Next:
		it := st.get(fr, x.Iter).(*rangeIter)
		if it.isS && it.sym != nil {
			if it.pos >= len(it.sym) {
				return TupleV{st.ts.False, st.ts.BV(64, 0), st.ts.BV(32, 0)}
			}
			r, sz := st.decodeRuneSym(it.sym[it.pos:])
			p := it.pos
			it.pos += sz
			return TupleV{st.ts.True, st.ts.BV(64, uint64(p)), r}
		}
		if it.isS {
			if it.pos >= len(it.str) {
				return TupleV{st.ts.False, st.ts.BV(64, 0), st.ts.BV(32, 0)}
			}
			r, sz := decodeRune(it.str[it.pos:])
			p := it.pos
			it.pos += sz
			return TupleV{st.ts.True, st.ts.BV(64, uint64(p)), st.ts.BV(32, uint64(r))}
		}
		for it.pos < len(it.keys) {
			i := it.keys[it.pos]
			it.pos++
			if it.m.dead[i] {
				continue
			}
			return TupleV{st.ts.True, it.m.keys[i], it.m.vals[i]}
		}
		return TupleV{st.ts.False, nil, nil}
	case *ssa.Phi:
		panic("phi handled at block entry")
	}
	panic(engineGap(fmt.Sprintf("unsupported value instruction %T", ins)))
}

// decodeRuneSym is utf8.DecodeRune on symbolic bytes: the path forks on the class of the leading byte
// and on the validity of each continuation byte (the accept ranges of unicode/utf8), so that the width
// is concrete on every path and the rune is a term over the bytes.
func (st *State) decodeRuneSym(b []*Term) (*Term, int) {
	ts := st.ts
	c8 := func(v uint64) *Term { return ts.BV(8, v) }
	in := func(x *Term, lo, hi uint64) *Term {
		return ts.And(ts.bvcmp(OBvUle, c8(lo), x), ts.bvcmp(OBvUle, x, c8(hi)))
	}
	z := func(x *Term, mask uint64) *Term { return ts.Resize(ts.bvbin(OBvAnd, x, c8(mask)), 32, false) }
	shl := func(x *Term, k uint64) *Term { return ts.bvbin(OBvShl, x, ts.BV(32, k)) }
	or := func(x, y *Term) *Term { return ts.bvbin(OBvOr, x, y) }
	bad := func() (*Term, int) { return ts.BV(32, 0xFFFD), 1 }
	b0 := b[0]
	if st.branch(ts.bvcmp(OBvUlt, b0, c8(0x80))) {
		return ts.Resize(b0, 32, false), 1
	}
	type class struct {
		lo, hi   uint64 // leading byte range
		n        int    // width
		slo, shi uint64 // accept range of the second byte
		mask     uint64
	}
	for _, c := range []class{
		{0xC2, 0xDF, 2, 0x80, 0xBF, 0x1F},
		{0xE0, 0xE0, 3, 0xA0, 0xBF, 0x0F}, {0xE1, 0xEC, 3, 0x80, 0xBF, 0x0F}, {0xED, 0xED, 3, 0x80, 0x9F, 0x0F}, {0xEE, 0xEF, 3, 0x80, 0xBF, 0x0F},
		{0xF0, 0xF0, 4, 0x90, 0xBF, 0x07}, {0xF1, 0xF3, 4, 0x80, 0xBF, 0x07}, {0xF4, 0xF4, 4, 0x80, 0x8F, 0x07},
	} {
		if !st.branch(in(b0, c.lo, c.hi)) {
			continue
		}
		if len(b) < c.n || !st.branch(in(b[1], c.slo, c.shi)) {
			return bad()
		}
		r := or(shl(z(b0, c.mask), 6), z(b[1], 0x3F))
		for k := 2; k < c.n; k++ {
			if !st.branch(in(b[k], 0x80, 0xBF)) {
				return bad()
			}
			r = or(shl(r, 6), z(b[k], 0x3F))
		}
		return r, c.n
	}
	return bad()
}

func decodeRune(s string) (rune, int) {
	for i, r := range s {
		_ = i
		n := len(string(r))
		if r == 0xFFFD && (len(s) < 3 || s[:3] != "\xef\xbf\xbd") {
			n = 1
		}
		return r, n
	}
	return 0, 0
}

// concreteInt forces an integer value to a concrete one (forking if symbolic).
func (st *State) concreteInt(v Value, what string) int64 {
	t := v.(*Term)
	if !t.isConst() {
		t = st.concretize(t)
	}
	return t.sval()
}

// ---------------------------------------------------------------- memory

func (st *State) symCandidates(p Ptr) int { return p.n }

func (st *State) load(p Ptr, t types.Type) Value {
	if p.obj == nil {
		panic(goPanic{msg: "runtime error: nil pointer dereference"})
	}
	n := cellCount(t)
	if p.sym == nil {
		if p.off+n > len(p.obj.cells) || p.off < 0 {
			panic(engineGap("load outside object"))
		}
		if isAggregate(t) {
			return CellsV{cloneCells(p.obj.cells[p.off : p.off+n])}
		}
		return p.obj.cells[p.off]
	}
	// symbolic index: ite-chain over candidates when all are scalar terms
	out := make([]Value, n)
	for j := 0; j < n; j++ {
		var acc *Term
		ok := true
		for k := p.n - 1; k >= 0; k-- {
			c, isT := p.obj.cells[p.off+k*p.stride+j].(*Term)
			if !isT {
				ok = false
				break
			}
			if acc == nil {
				acc = c
				continue
			}
			if acc.sort != c.sort {
				c, acc = st.unifyFloat(c, acc)
			}
			acc = st.ts.Ite(st.ts.Eq(p.sym, st.ts.BV(64, uint64(k))), c, acc)
		}
		if !ok {
			k := st.concretize(p.sym).sval()
			q := Ptr{obj: p.obj, off: p.off + int(k)*p.stride}
			return st.load(q, t)
		}
		out[j] = acc
	}
	if isAggregate(t) {
		return CellsV{out}
	}
	return out[0]
}

// unifyFloat brings a float constant and a Real term to the same sort.
func (st *State) unifyFloat(a, b *Term) (*Term, *Term) {
	if a.sort == SF64 && b.sort == SReal && a.isConst() {
		return st.toReal(a), b
	}
	if b.sort == SF64 && a.sort == SReal && b.isConst() {
		return a, st.toReal(b)
	}
	return a, b
}

func (st *State) store(p Ptr, t types.Type, v Value) {
	if p.obj == nil {
		panic(goPanic{msg: "runtime error: nil pointer dereference"})
	}
	vals := flatten(v, nil)
	n := len(vals)
	if p.sym != nil {
		allT := true
		for j := 0; j < n && allT; j++ {
			if _, ok := vals[j].(*Term); !ok {
				allT = false
			}
			for k := 0; k < p.n && allT; k++ {
				if _, ok := p.obj.cells[p.off+k*p.stride+j].(*Term); !ok {
					allT = false
				}
			}
		}
		if !allT {
			k := st.concretize(p.sym).sval()
			st.store(Ptr{obj: p.obj, off: p.off + int(k)*p.stride}, t, v)
			return
		}
		for k := 0; k < p.n; k++ {
			hit := st.ts.Eq(p.sym, st.ts.BV(64, uint64(k)))
			for j := 0; j < n; j++ {
				idx := p.off + k*p.stride + j
				old := p.obj.cells[idx].(*Term)
				nv := vals[j].(*Term)
				if old.sort != nv.sort {
					nv, old = st.unifyFloat(nv, old)
				}
				st.writeCell(p.obj, idx, st.ts.Ite(hit, nv, old))
			}
		}
		return
	}
	if p.off < 0 || p.off+n > len(p.obj.cells) {
		panic(engineGap("store outside object"))
	}
	for j := 0; j < n; j++ {
		st.writeCell(p.obj, p.off+j, vals[j])
	}
}

func (st *State) writeCell(o *Obj, idx int, v Value) {
	if o.isGlobal && st.h != nil && st.h.Name != "<init>" && st.inLibrary > 0 {
		st.globalWrites = append(st.globalWrites, o.label)
	}
	if !o.isGlobal && st.inLibrary > 0 && o.epoch < st.epoch && st.epoch > 0 {
		// library code writes to memory that existed before the current API call
		st.sharedWrites = append(st.sharedWrites, o.label)
	}
	if o.frozen {
		old := o.cells[idx]
		same := st.valueEq(old, v)
		if !same.isTrue() {
			st.obligation(same, "frozen", "input modified: store into frozen "+o.label)
		}
	}
	o.cells[idx] = v
}

// valueEq is Go's == on values where defined, bit-identity for floats.
func (st *State) valueEq(a, b Value) *Term {
	switch x := a.(type) {
	case *Term:
		y, ok := b.(*Term)
		if !ok {
			return st.ts.False
		}
		if x == y {
			return st.ts.True
		}
		if x.sort != y.sort {
			x, y = st.unifyFloat(x, y)
		}
		if x.sort == SF64 {
			// identical unless both are NaN-free and equal with equal sign; use fp "=" (bit identity up to NaN)
			return st.ts.intern(&Term{op: OEq, sort: SBool, args: []*Term{x, y}})
		}
		return st.ts.Eq(x, y)
	case Ptr:
		y, ok := b.(Ptr)
		if !ok {
			return st.ts.False
		}
		if x.sym != nil || y.sym != nil {
			if x.obj == y.obj && x.off == y.off && x.sym == y.sym && x.stride == y.stride {
				return st.ts.True
			}
			panic(engineGap("comparison of pointers with symbolic index"))
		}
		return st.ts.Bool(x.obj == y.obj && (x.obj == nil || x.off == y.off))
	case SliceV:
		y, ok := b.(SliceV)
		return st.ts.Bool(ok && x.obj == y.obj && x.off == y.off && x.len == y.len)
	case StrV:
		y, ok := b.(StrV)
		if !ok {
			return st.ts.False
		}
		return st.strEq(x, y)
	case IfaceV:
		y, ok := b.(IfaceV)
		if !ok {
			return st.ts.False
		}
		if x.t == nil || y.t == nil {
			return st.ts.Bool(x.t == nil && y.t == nil)
		}
		if !types.Identical(x.t, y.t) {
			return st.ts.False
		}
		return st.valueEq(x.v, y.v)
	case CellsV:
		y, ok := b.(CellsV)
		if !ok || len(x.c) != len(y.c) {
			return st.ts.False
		}
		r := st.ts.True
		for i := range x.c {
			r = st.ts.And(r, st.goEq(x.c[i], y.c[i]))
		}
		return r
	case ClosureV:
		y, ok := b.(ClosureV)
		return st.ts.Bool(ok && x.fn == y.fn && len(x.bind) == 0 && len(y.bind) == 0)
	case MapV:
		y, ok := b.(MapV)
		return st.ts.Bool(ok && x.m == y.m)
	case nil:
		return st.ts.Bool(b == nil)
	}
	panic(engineGap(fmt.Sprintf("equality on %T", a)))
}

// goEq is Go's == (floats compare with IEEE equality).
func (st *State) goEq(a, b Value) *Term {
	if x, ok := a.(*Term); ok {
		if y, ok := b.(*Term); ok {
			if x.sort == SF64 || x.sort == SReal || y.sort == SF64 || y.sort == SReal {
				return st.fcmp(token.EQL, x, y)
			}
		}
	}
	return st.valueEq(a, b)
}

func (st *State) strEq(x, y StrV) *Term {
	if x.sym == nil && y.sym == nil {
		return st.ts.Bool(x.s == y.s)
	}
	xb, yb := st.strBytes(x), st.strBytes(y)
	if len(xb) != len(yb) {
		return st.ts.False
	}
	r := st.ts.True
	for i := range xb {
		r = st.ts.And(r, st.ts.Eq(xb[i], yb[i]))
	}
	return r
}

func (st *State) strBytes(x StrV) []*Term {
	if x.sym != nil {
		return x.sym
	}
	out := make([]*Term, len(x.s))
	for i := 0; i < len(x.s); i++ {
		out[i] = st.ts.BV(8, uint64(x.s[i]))
	}
	return out
}

func (st *State) strLen(x StrV) int {
	if x.sym != nil {
		return len(x.sym)
	}
	return len(x.s)
}

// ---------------------------------------------------------------- indexing

// boundsCheck emits the obligation 0 <= i < n and returns a concrete index or a symbolic one.
func (st *State) boundsCheck(i *Term, n int, signedIdx bool, what string) *Term {
	i64 := st.ts.Resize(i, 64, signedIdx)
	if i64.isConst() {
		v := i64.sval()
		if v < 0 || v >= int64(n) {
			panic(goPanic{msg: fmt.Sprintf("runtime error: index out of range [%d] with length %d", v, n)})
		}
		return i64
	}
	in := st.ts.bvcmp(OBvUlt, i64, st.ts.BV(64, uint64(n)))
	st.require(in, what)
	return i64
}

func (st *State) indexAddr(fr *frame, x *ssa.IndexAddr) Value {
	base := st.get(fr, x.X)
	idx := st.get(fr, x.Index).(*Term)
	_, signed, _ := intType(x.Index.Type())
	switch b := base.(type) {
	case SliceV:
		i := st.boundsCheck(idx, b.len, signed, "index out of range")
		if i.isConst() {
			return Ptr{obj: b.obj, off: b.off + int(i.sval())*b.esz}
		}
		return Ptr{obj: b.obj, off: b.off, sym: i, stride: b.esz, n: b.len}
	case Ptr: // pointer to array
		at := x.X.Type().Underlying().(*types.Pointer).Elem().Underlying().(*types.Array)
		if b.obj == nil {
			panic(goPanic{msg: "runtime error: nil pointer dereference"})
		}
		esz := cellCount(at.Elem())
		i := st.boundsCheck(idx, int(at.Len()), signed, "index out of range")
		if b.sym != nil {
			k := st.concretize(b.sym).sval()
			b = Ptr{obj: b.obj, off: b.off + int(k)*b.stride}
		}
		if i.isConst() {
			return Ptr{obj: b.obj, off: b.off + int(i.sval())*esz}
		}
		return Ptr{obj: b.obj, off: b.off, sym: i, stride: esz, n: int(at.Len())}
	}
	panic(engineGap(fmt.Sprintf("IndexAddr on %T", base)))
}

func (st *State) indexValue(fr *frame, x *ssa.Index) Value {
	base := st.get(fr, x.X)
	idx := st.get(fr, x.Index).(*Term)
	_, signed, _ := intType(x.Index.Type())
	switch b := base.(type) {
	case StrV:
		n := st.strLen(b)
		i := st.boundsCheck(idx, n, signed, "string index out of range")
		bs := st.strBytes(b)
		if i.isConst() {
			return bs[i.sval()]
		}
		acc := bs[n-1]
		for k := n - 2; k >= 0; k-- {
			acc = st.ts.Ite(st.ts.Eq(i, st.ts.BV(64, uint64(k))), bs[k], acc)
		}
		return acc
	case CellsV: // array value
		at := x.X.Type().Underlying().(*types.Array)
		esz := cellCount(at.Elem())
		i := st.boundsCheck(idx, int(at.Len()), signed, "index out of range")
		if !i.isConst() {
			i = st.concretize(i)
		}
		k := int(i.sval())
		if isAggregate(at.Elem()) {
			return CellsV{cloneCells(b.c[k*esz : (k+1)*esz])}
		}
		return b.c[k]
	}
	panic(engineGap(fmt.Sprintf("Index on %T", base)))
}

func (st *State) sliceOp(fr *frame, x *ssa.Slice) Value {
	base := st.get(fr, x.X)
	geti := func(v ssa.Value, def int64) int64 {
		if v == nil {
			return def
		}
		return st.concreteInt(st.get(fr, v), "slice bound")
	}
	switch b := base.(type) {
	case SliceV:
		lo := geti(x.Low, 0)
		hi := geti(x.High, int64(b.len))
		mx := geti(x.Max, int64(b.cap))
		if lo < 0 || hi < lo || mx < hi || mx > int64(b.cap) {
			panic(goPanic{msg: fmt.Sprintf("runtime error: slice bounds out of range [%d:%d:%d] with capacity %d", lo, hi, mx, b.cap)})
		}
		if b.obj == nil {
			return b
		}
		return SliceV{obj: b.obj, off: b.off + int(lo)*b.esz, len: int(hi - lo), cap: int(mx - lo), esz: b.esz}
	case StrV:
		n := int64(st.strLen(b))
		lo := geti(x.Low, 0)
		hi := geti(x.High, n)
		if lo < 0 || hi < lo || hi > n {
			panic(goPanic{msg: "runtime error: slice bounds out of range"})
		}
		if b.sym != nil {
			return StrV{sym: b.sym[lo:hi:hi]}
		}
		return StrV{s: b.s[lo:hi]}
	case Ptr: // pointer to array
		at := x.X.Type().Underlying().(*types.Pointer).Elem().Underlying().(*types.Array)
		if b.obj == nil {
			panic(goPanic{msg: "runtime error: nil pointer dereference"})
		}
		esz := cellCount(at.Elem())
		n := at.Len()
		lo := geti(x.Low, 0)
		hi := geti(x.High, n)
		mx := geti(x.Max, n)
		if lo < 0 || hi < lo || mx < hi || mx > n {
			panic(goPanic{msg: "runtime error: slice bounds out of range"})
		}
		return SliceV{obj: b.obj, off: b.off + int(lo)*esz, len: int(hi - lo), cap: int(mx - lo), esz: esz}
	}
	panic(engineGap(fmt.Sprintf("Slice on %T", base)))
}

// ---------------------------------------------------------------- maps

func (st *State) mapFind(m *MapObj, key Value) int {
	for i := range m.keys {
		if m.dead[i] {
			continue
		}
		if st.branch(st.goEq(m.keys[i], key)) {
			return i
		}
	}
	return -1
}

func (st *State) lookup(fr *frame, x *ssa.Lookup) Value {
	base := st.get(fr, x.X)
	if s, ok := base.(StrV); ok {
		idx := st.get(fr, x.Index).(*Term)
		_, signed, _ := intType(x.Index.Type())
		n := st.strLen(s)
		i := st.boundsCheck(idx, n, signed, "string index out of range")
		bs := st.strBytes(s)
		if i.isConst() {
			return bs[i.sval()]
		}
		acc := bs[n-1]
		for k := n - 2; k >= 0; k-- {
			acc = st.ts.Ite(st.ts.Eq(i, st.ts.BV(64, uint64(k))), bs[k], acc)
		}
		return acc
	}
	m := base.(MapV)
	key := st.get(fr, x.Index)
	vt := x.X.Type().Underlying().(*types.Map).Elem()
	var val Value
	found := false
	if m.m != nil {
		if i := st.mapFind(m.m, key); i >= 0 {
			val = m.m.vals[i]
			found = true
		}
	}
	if !found {
		val = st.e.zero(st.ts, vt)
	}
	if x.CommaOk {
		return TupleV{val, st.ts.Bool(found)}
	}
	return val
}

func (st *State) mapUpdate(m MapV, key, val Value) {
	if m.m == nil {
		panic(goPanic{msg: "assignment to entry in nil map"})
	}
	if i := st.mapFind(m.m, key); i >= 0 {
		m.m.vals[i] = val
		return
	}
	m.m.keys = append(m.m.keys, key)
	m.m.vals = append(m.m.vals, val)
	m.m.dead = append(m.m.dead, false)
}

// ---------------------------------------------------------------- interfaces

func (st *State) typeAssert(x *ssa.TypeAssert, v IfaceV) Value {
	ok := false
	var res Value
	if v.t != nil {
		if types.IsInterface(x.AssertedType) {
			it := x.AssertedType.Underlying().(*types.Interface)
			if types.Implements(v.t, it) {
				ok = true
				res = v
			}
		} else if types.Identical(v.t, x.AssertedType) {
			ok = true
			res = v.v
		}
	}
	if x.CommaOk {
		if !ok {
			res = st.e.zero(st.ts, x.AssertedType)
		}
		return TupleV{res, st.ts.Bool(ok)}
	}
	if !ok {
		panic(goPanic{msg: "interface conversion: type assertion failed"})
	}
	return res
}

// ---------------------------------------------------------------- calls

func (st *State) doCall(fr *frame, c *ssa.CallCommon) Value {
	args := make([]Value, 0, len(c.Args)+1)
	if c.IsInvoke() {
		recv := st.get(fr, c.Value).(IfaceV)
		if recv.t == nil {
			panic(goPanic{msg: "runtime error: invalid memory address or nil pointer dereference (nil interface)"})
		}
		fn := st.e.prog.LookupMethod(recv.t, c.Method.Pkg(), c.Method.Name())
		if fn == nil {
			panic(engineGap("method not found: " + c.Method.Name() + " on " + recv.t.String()))
		}
		args = append(args, recv.v)
		for _, a := range c.Args {
			args = append(args, st.get(fr, a))
		}
		return st.callFunction(fn, args, nil)
	}
	for _, a := range c.Args {
		args = append(args, st.get(fr, a))
	}
	switch f := c.Value.(type) {
	case *ssa.Builtin:
		return st.builtin(f, args, c)
	case *ssa.Function:
		return st.callFunction(f, args, nil)
	}
	switch f := st.get(fr, c.Value).(type) {
	case ClosureV:
		if f.fn == nil {
			panic(goPanic{msg: "runtime error: call of nil function"})
		}
		return st.callFunction(f.fn, args, f.bind)
	case *ssa.Builtin:
		return st.builtin(f, args, c)
	}
	panic(engineGap("call of unsupported function value"))
}

func (st *State) builtin(b *ssa.Builtin, args []Value, c *ssa.CallCommon) Value {
	switch b.Name() {
	case "len":
		switch x := args[0].(type) {
		case SliceV:
			return st.ts.BV(64, uint64(x.len))
		case StrV:
			return st.ts.BV(64, uint64(st.strLen(x)))
		case MapV:
			n := 0
			if x.m != nil {
				for _, d := range x.m.dead {
					if !d {
						n++
					}
				}
			}
			return st.ts.BV(64, uint64(n))
		case CellsV:
			at := c.Args[0].Type().Underlying().(*types.Array)
			return st.ts.BV(64, uint64(at.Len()))
		case Ptr:
			at := c.Args[0].Type().Underlying().(*types.Pointer).Elem().Underlying().(*types.Array)
			return st.ts.BV(64, uint64(at.Len()))
		}
	case "cap":
		if x, ok := args[0].(SliceV); ok {
			return st.ts.BV(64, uint64(x.cap))
		}
	case "append":
		return st.appendOp(args[0].(SliceV), args[1], c.Args[0].Type())
	case "copy":
		dst := args[0].(SliceV)
		var n int
		switch src := args[1].(type) {
		case SliceV:
			n = dst.len
			if src.len < n {
				n = src.len
			}
			tmp := make([]Value, n*dst.esz)
			if n > 0 {
				copy(tmp, src.obj.cells[src.off:src.off+n*dst.esz])
			}
			for i := range tmp {
				st.writeCell(dst.obj, dst.off+i, tmp[i])
			}
		case StrV:
			bs := st.strBytes(src)
			n = dst.len
			if len(bs) < n {
				n = len(bs)
			}
			for i := 0; i < n; i++ {
				st.writeCell(dst.obj, dst.off+i, bs[i])
			}
		}
		return st.ts.BV(64, uint64(n))
	case "delete":
		m := args[0].(MapV)
		if m.m != nil {
			if i := st.mapFind(m.m, args[1]); i >= 0 {
				m.m.dead[i] = true
			}
		}
		return nil
	case "print", "println":
		return nil
	case "ssa:wrapnilchk":
		if p, ok := args[0].(Ptr); ok && p.obj == nil {
			panic(goPanic{msg: "value method called using nil pointer"})
		}
		return args[0]
	case "min", "max":
		acc := args[0].(*Term)
		isF := isFloatType(c.Args[0].Type())
		_, signed, _ := intType(c.Args[0].Type())
		for _, a := range args[1:] {
			y := a.(*Term)
			if isF {
				if b.Name() == "min" {
					acc = st.mathMin(acc, y)
				} else {
					acc = st.mathMax(acc, y)
				}
				continue
			}
			op := OBvUlt
			if signed {
				op = OBvSlt
			}
			lt := st.ts.bvcmp(op, y, acc)
			if b.Name() == "max" {
				lt = st.ts.bvcmp(op, acc, y)
			}
			acc = st.ts.Ite(lt, y, acc)
		}
		return acc
	}
	panic(engineGap("builtin " + b.Name()))
}

func (st *State) appendOp(s SliceV, more Value, st0 types.Type) Value {
	var add []Value
	var k int
	esz := s.esz
	if sl, ok := st0.Underlying().(*types.Slice); ok {
		esz = cellCount(sl.Elem())
	}
	switch m := more.(type) {
	case SliceV:
		k = m.len
		if k > 0 {
			add = cloneCells(m.obj.cells[m.off : m.off+m.len*m.esz])
		}
	case StrV:
		bs := st.strBytes(m)
		k = len(bs)
		for _, b := range bs {
			add = append(add, b)
		}
	default:
		panic(engineGap("append of unsupported value"))
	}
	if k == 0 {
		return s
	}
	if s.len+k <= s.cap && s.obj != nil {
		for i, v := range add {
			st.writeCell(s.obj, s.off+s.len*esz+i, v)
		}
		return SliceV{obj: s.obj, off: s.off, len: s.len + k, cap: s.cap, esz: esz}
	}
	// grow: Go's exact growth rule is not observable except through cap(); use doubling
	ncap := s.cap * 2
	if ncap < s.len+k {
		ncap = s.len + k
	}
	if ncap < 4 && s.len+k <= 4 {
		ncap = s.len + k
	}
	cells := make([]Value, 0, ncap*esz)
	if s.obj != nil {
		cells = append(cells, s.obj.cells[s.off:s.off+s.len*esz]...)
	}
	cells = append(cells, add...)
	// zero-fill the rest using the element type
	et := st0.Underlying().(*types.Slice).Elem()
	for len(cells) < ncap*esz {
		cells = st.e.zeroInto(st.ts, et, cells)
	}
	return SliceV{obj: st.newObj(cells, "append"), len: s.len + k, cap: ncap, esz: esz}
}

func typeString(t types.Type) string {
	return strings.TrimPrefix(t.String(), "github.com/aclements/go-moremath/")
}

var _ = math.Inf

// tryIfConvert: placeholder for if-conversion of pure diamonds (not implemented: always forks).
func (st *State) tryIfConvert(fr *frame, b *ssa.BasicBlock, c *Term) (*ssa.BasicBlock, bool) {
	return nil, false
}

// isLibraryFn: a function of the repository itself (not of a harness file).
func (st *State) isLibraryFn(fn *ssa.Function) bool {
	if v, ok := st.libFn[fn]; ok {
		return v
	}
	if st.libFn == nil {
		st.libFn = map[*ssa.Function]bool{}
	}
	r := st.e.inRepo(fn)
	if r {
		f := fn
		for f.Parent() != nil {
			f = f.Parent()
		}
		if f.Pos().IsValid() {
			name := st.e.prog.Fset.Position(f.Pos()).Filename
			if _, isOv := st.e.overlay[name]; isOv {
				r = false
			}
		} else if strings.HasPrefix(f.Name(), "Vx") || strings.HasPrefix(f.Name(), "vx") {
			r = false
		}
	}
	st.libFn[fn] = r
	return r
}

// deferredCall runs a call recorded by a defer statement.
func (st *State) deferredCall(c *ssa.CallCommon, recv, fv Value, args []Value) {
	if c.IsInvoke() {
		r := recv.(IfaceV)
		if r.t == nil {
			panic(goPanic{msg: "runtime error: invalid memory address or nil pointer dereference (nil interface)"})
		}
		fn := st.e.prog.LookupMethod(r.t, c.Method.Pkg(), c.Method.Name())
		if fn == nil {
			panic(engineGap("deferred method not found: " + c.Method.Name()))
		}
		st.callFunction(fn, append([]Value{r.v}, args...), nil)
		return
	}
	switch f := fv.(type) {
	case ClosureV:
		if f.fn == nil {
			panic(goPanic{msg: "runtime error: call of nil function"})
		}
		st.callFunction(f.fn, args, f.bind)
	case *ssa.Builtin:
		st.builtin(f, args, c)
	default:
		panic(engineGap("deferred call of unsupported function value"))
	}
}

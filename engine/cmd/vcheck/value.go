package main

import (
	"fmt"
	"go/types"

	"golang.org/x/tools/go/ssa"
)

// Value is one of:
//   *Term      bool / integer / float scalar
//   Ptr        pointer
//   SliceV     slice header
//   CellsV     struct or array value (flattened into scalar cells)
//   IfaceV     interface value
//   ClosureV   function value (plain functions have no bindings)
//   MapV       map reference
//   StrV       string
//   TupleV     multiple results
//   *ssa.Builtin
type Value interface{}

type Obj struct {
	id     int
	cells  []Value
	frozen bool
	isGlobal bool
	epoch  int
	label  string
}

type Ptr struct {
	obj    *Obj
	off    int
	sym    *Term // optional symbolic index (BV64), address = off + sym*stride, 0 <= sym < n
	stride int
	n      int
}

type SliceV struct {
	obj *Obj
	off int // in cells
	len int
	cap int
	esz int // cells per element
}

type CellsV struct{ c []Value }

type IfaceV struct {
	t types.Type // nil => nil interface
	v Value
}

type ClosureV struct {
	fn   *ssa.Function // nil => nil func
	bind []Value
}

type MapObj struct {
	keys []Value
	vals []Value
	dead []bool
}
type MapV struct{ m *MapObj }

type StrV struct {
	s   string
	sym []*Term // if non-nil: symbolic bytes (BV8) of concrete length; s unused
}

type TupleV []Value

type rangeIter struct {
	m    *MapObj
	str  string
	sym  []*Term // string with symbolic bytes (then str is unused)
	pos  int
	isS  bool
	keys []int // snapshot of entry indexes in iteration order
}

func basicWidth(b *types.Basic) (w int, signed bool, ok bool) {
	switch b.Kind() {
	case types.Int8:
		return 8, true, true
	case types.Int16:
		return 16, true, true
	case types.Int32:
		return 32, true, true
	case types.Int64, types.Int:
		return 64, true, true
	case types.Uint8:
		return 8, false, true
	case types.Uint16:
		return 16, false, true
	case types.Uint32:
		return 32, false, true
	case types.Uint64, types.Uint, types.Uintptr:
		return 64, false, true
	case types.UntypedInt, types.UntypedRune:
		return 64, true, true
	}
	return 0, false, false
}

func intType(t types.Type) (w int, signed bool, ok bool) {
	if b, isB := t.Underlying().(*types.Basic); isB {
		return basicWidth(b)
	}
	return 0, false, false
}

func isFloatType(t types.Type) bool {
	if b, ok := t.Underlying().(*types.Basic); ok {
		return b.Kind() == types.Float64 || b.Kind() == types.UntypedFloat || b.Kind() == types.Float32
	}
	return false
}
func isFloat32(t types.Type) bool {
	if b, ok := t.Underlying().(*types.Basic); ok {
		return b.Kind() == types.Float32
	}
	return false
}
func isBoolType(t types.Type) bool {
	if b, ok := t.Underlying().(*types.Basic); ok {
		return b.Info()&types.IsBoolean != 0
	}
	return false
}
func isStringType(t types.Type) bool {
	if b, ok := t.Underlying().(*types.Basic); ok {
		return b.Info()&types.IsString != 0
	}
	return false
}

// cellCount is the number of scalar cells a value of type t occupies.
func cellCount(t types.Type) int {
	switch u := t.Underlying().(type) {
	case *types.Struct:
		n := 0
		for i := 0; i < u.NumFields(); i++ {
			n += cellCount(u.Field(i).Type())
		}
		return n
	case *types.Array:
		return int(u.Len()) * cellCount(u.Elem())
	}
	return 1
}

func fieldOffset(st *types.Struct, i int) int {
	off := 0
	for j := 0; j < i; j++ {
		off += cellCount(st.Field(j).Type())
	}
	return off
}

func (e *Engine) zeroInto(ts *TermStore, t types.Type, out []Value) []Value {
	switch u := t.Underlying().(type) {
	case *types.Struct:
		for i := 0; i < u.NumFields(); i++ {
			out = e.zeroInto(ts, u.Field(i).Type(), out)
		}
		return out
	case *types.Array:
		for i := int64(0); i < u.Len(); i++ {
			out = e.zeroInto(ts, u.Elem(), out)
		}
		return out
	case *types.Basic:
		if w, _, ok := basicWidth(u); ok {
			return append(out, ts.BV(w, 0))
		}
		switch {
		case u.Info()&types.IsBoolean != 0:
			return append(out, ts.False)
		case u.Info()&types.IsFloat != 0:
			return append(out, ts.F64(0))
		case u.Info()&types.IsString != 0:
			return append(out, StrV{})
		case u.Kind() == types.UnsafePointer:
			return append(out, Ptr{})
		case u.Kind() == types.UntypedNil:
			return append(out, nil)
		}
		panic(engineGap("zero value of basic type " + u.String()))
	case *types.Pointer:
		return append(out, Ptr{})
	case *types.Slice:
		return append(out, SliceV{esz: cellCount(u.Elem())})
	case *types.Map:
		return append(out, MapV{})
	case *types.Interface:
		return append(out, IfaceV{})
	case *types.Signature:
		return append(out, ClosureV{})
	case *types.Chan:
		return append(out, nil)
	case *types.Tuple:
		return append(out, nil)
	}
	panic(engineGap(fmt.Sprintf("zero value of type %v", t)))
}

// zero returns the zero Value of type t (CellsV for aggregates).
func (e *Engine) zero(ts *TermStore, t types.Type) Value {
	cs := e.zeroInto(ts, t, nil)
	switch t.Underlying().(type) {
	case *types.Struct, *types.Array:
		return CellsV{cs}
	}
	return cs[0]
}

func isAggregate(t types.Type) bool {
	switch t.Underlying().(type) {
	case *types.Struct, *types.Array:
		return true
	}
	return false
}

// flatten appends the cells of v (of type t) to out.
func flatten(v Value, out []Value) []Value {
	if c, ok := v.(CellsV); ok {
		return append(out, c.c...)
	}
	return append(out, v)
}

func cloneCells(c []Value) []Value {
	n := make([]Value, len(c))
	copy(n, c)
	return n
}

package main

import (
	"encoding/json"
	"fmt"
	"go/ast"
	"go/constant"
	"os"
	"path/filepath"
	"sort"
	"strconv"
	"strings"

	"golang.org/x/tools/go/packages"
	"golang.org/x/tools/go/ssa"
	"golang.org/x/tools/go/ssa/ssautil"
)

const modPath = "github.com/aclements/go-moremath"

type Engine struct {
	prog        *ssa.Program
	pkgs        []*ssa.Package
	repoDir     string
	harnessDir  string
	overlay     map[string][]byte
	overlayFile map[string]string // virtual path -> real path
	harnesses   []*Harness
	reverseMaps bool
	knownOpen   map[string]bool
	knownWhat   map[string]string
	harnessPkgs map[string]bool // import paths that contain harness files
	funcsByName map[string]*ssa.Function
}

func (e *Engine) inRepoPkg(path string) bool {
	return path == modPath || strings.HasPrefix(path, modPath+"/")
}

func (e *Engine) inRepo(fn *ssa.Function) bool {
	p := fn.Pkg
	if p == nil && fn.Origin() != nil {
		p = fn.Origin().Pkg
	}
	if p == nil {
		if fn.Parent() != nil {
			return e.inRepo(fn.Parent())
		}
		return false
	}
	return e.inRepoPkg(p.Pkg.Path())
}

var interpretedStd = map[string]bool{"sort": true, "errors": true, "internal/reflectlite": false}

func (e *Engine) interpretable(fn *ssa.Function) bool {
	if e.inRepo(fn) {
		return true
	}
	p := fn.Pkg
	if p == nil && fn.Origin() != nil {
		p = fn.Origin().Pkg
	}
	if p == nil && fn.Parent() != nil {
		return e.interpretable(fn.Parent())
	}
	if p == nil {
		// synthetic wrappers (bound methods, thunks) have no package: allow
		return fn.Synthetic != ""
	}
	return interpretedStd[p.Pkg.Path()]
}

// LoadEngine loads /repo with the harness overlay and builds SSA.
func LoadEngine(repoDir, harnessDir string) (*Engine, error) {
	e := &Engine{repoDir: repoDir, harnessDir: harnessDir, overlay: map[string][]byte{}, overlayFile: map[string]string{},
		knownOpen: map[string]bool{}, knownWhat: map[string]string{}, harnessPkgs: map[string]bool{}, funcsByName: map[string]*ssa.Function{}}
	// overlay: harness/<relpkg>/*.go -> repo/<relpkg>/ ; harness/vx -> repo/internal/vx
	err := filepath.Walk(harnessDir, func(p string, info os.FileInfo, err error) error {
		if err != nil || info.IsDir() || !strings.HasSuffix(p, ".go") {
			return err
		}
		rel, _ := filepath.Rel(harnessDir, p)
		dir := filepath.Dir(rel)
		var virt string
		if dir == "vx" {
			virt = filepath.Join(repoDir, "internal", "vx", filepath.Base(p))
		} else {
			virt = filepath.Join(repoDir, dir, filepath.Base(p))
			if !strings.HasSuffix(p, "_test.go") {
				ip := modPath
				if dir != "." {
					ip = modPath + "/" + filepath.ToSlash(dir)
				}
				e.harnessPkgs[ip] = true
			}
		}
		if strings.HasSuffix(p, "_test.go") {
			e.overlayFile[virt] = p
			return nil
		}
		b, err := os.ReadFile(p)
		if err != nil {
			return err
		}
		e.overlay[virt] = b
		e.overlayFile[virt] = p
		return nil
	})
	if err != nil {
		return nil, err
	}
	var patterns []string
	for ip := range e.harnessPkgs {
		patterns = append(patterns, ip)
	}
	sort.Strings(patterns)
	cfg := &packages.Config{
		Mode:       packages.LoadAllSyntax,
		Dir:        repoDir,
		Overlay:    e.overlay,
		BuildFlags: []string{"-tags=verif"},
		Env:        append(os.Environ(), "GOFLAGS=-mod=mod", "GOPROXY=off", "GOSUMDB=off", "GOTOOLCHAIN=local"),
	}
	pkgs, err := packages.Load(cfg, patterns...)
	if err != nil {
		return nil, err
	}
	nerr := 0
	packages.Visit(pkgs, nil, func(p *packages.Package) {
		for _, er := range p.Errors {
			fmt.Fprintln(os.Stderr, "load error:", er)
			nerr++
		}
	})
	if nerr > 0 {
		return nil, fmt.Errorf("%d package load errors (the current /repo tree does not compile with the harness overlay)", nerr)
	}
	prog, spkgs := ssautil.AllPackages(pkgs, ssa.InstantiateGenerics)
	prog.Build()
	e.prog = prog
	for _, sp := range spkgs {
		if sp != nil {
			e.pkgs = append(e.pkgs, sp)
		}
	}
	// discover harness functions VxCnn_* and their directives
	for i, p := range pkgs {
		sp := spkgs[i]
		if sp == nil {
			continue
		}
		for _, f := range p.Syntax {
			fname := p.Fset.Position(f.Pos()).Filename
			if _, isOv := e.overlay[fname]; !isOv {
				continue
			}
			for _, d := range f.Decls {
				fd, ok := d.(*ast.FuncDecl)
				if !ok || fd.Recv != nil {
					continue
				}
				fn := sp.Func(fd.Name.Name)
				if fn == nil {
					continue
				}
				e.funcsByName[p.Name+"."+fd.Name.Name] = fn
				if !strings.HasPrefix(fd.Name.Name, "VxC") {
					continue
				}
				h := &Harness{Name: p.Name + "." + fd.Name.Name, fn: fn, mode: ModeFP, solver: "", stubs: map[string]*ssa.Function{},
					maxDec: 4000, maxSteps: 20_000_000, timeoutMs: 20000}
				h.Prop = fd.Name.Name[2:5]
				if fd.Doc != nil {
					for _, c := range fd.Doc.List {
						if err := e.directive(h, sp, strings.TrimSpace(strings.TrimPrefix(c.Text, "//"))); err != nil {
							return nil, fmt.Errorf("%s: %v", h.Name, err)
						}
					}
				}
				if h.solver == "" {
					if h.mode == ModeFP {
						h.solver = "cvc5"
					} else {
						h.solver = "z3"
					}
				}
				h.covers = staticCovers(fn)
				e.harnesses = append(e.harnesses, h)
			}
		}
	}
	sort.Slice(e.harnesses, func(i, j int) bool { return e.harnesses[i].Name < e.harnesses[j].Name })
	return e, nil
}

func (e *Engine) findFunc(sp *ssa.Package, name string) *ssa.Function {
	// "pkg.Func", "pkg.(*T).M" / "pkg.T.M" or a local "Func"
	if fn := sp.Func(name); fn != nil {
		return fn
	}
	for _, p := range e.prog.AllPackages() {
		pre := p.Pkg.Path() + "."
		short := p.Pkg.Name() + "."
		var rest string
		switch {
		case strings.HasPrefix(name, pre):
			rest = name[len(pre):]
		case strings.HasPrefix(name, short) && (e.inRepoPkg(p.Pkg.Path()) || !strings.Contains(p.Pkg.Path(), "/") || strings.HasPrefix(p.Pkg.Path(), "math/") || strings.HasPrefix(p.Pkg.Path(), "gonum.org")):
			rest = name[len(short):]
		default:
			continue
		}
		if fn := p.Func(rest); fn != nil {
			return fn
		}
		// method: (*T).M or T.M
		ptr := false
		r := rest
		if strings.HasPrefix(r, "(*") {
			ptr = true
			r = strings.Replace(r[2:], ")", "", 1)
		}
		parts := strings.SplitN(r, ".", 2)
		if len(parts) == 2 {
			if tp := p.Type(parts[0]); tp != nil {
				var recv = tp.Type()
				if ptr {
					recv = typesPointer(recv)
				}
				if fn := e.prog.LookupMethod(recv, p.Pkg, parts[1]); fn != nil {
					return fn
				}
			}
		}
	}
	return nil
}

func (e *Engine) directive(h *Harness, sp *ssa.Package, line string) error {
	if !strings.HasPrefix(line, "vx:") {
		return nil
	}
	fields := strings.Fields(line[3:])
	if len(fields) == 0 {
		return nil
	}
	arg := func() (string, error) {
		if len(fields) < 2 {
			return "", fmt.Errorf("directive %q needs an argument", line)
		}
		return fields[1], nil
	}
	switch fields[0] {
	case "mode":
		a, err := arg()
		if err != nil {
			return err
		}
		switch a {
		case "FP":
			h.mode = ModeFP
		case "R":
			h.mode = ModeR
		case "ORD":
			h.mode = ModeORD
		case "RR":
			h.mode = ModeRR
		default:
			return fmt.Errorf("unknown mode %s", a)
		}
	case "solver":
		a, err := arg()
		if err != nil {
			return err
		}
		h.solver = a
	case "maxdec":
		a, _ := arg()
		h.maxDec, _ = strconv.Atoi(a)
	case "maxsteps":
		a, _ := arg()
		n, _ := strconv.ParseInt(a, 10, 64)
		h.maxSteps = n
	case "maxpaths":
		a, _ := arg()
		h.maxPaths, _ = strconv.Atoi(a)
	case "timeout":
		a, _ := arg()
		h.timeoutMs, _ = strconv.Atoi(a)
	case "jobs":
		a, _ := arg()
		h.jobs, _ = strconv.Atoi(a)
	case "budget":
		a, _ := arg()
		h.budgetS, _ = strconv.Atoi(a)
	case "tier":
		a, _ := arg()
		h.needTier, _ = strconv.Atoi(a)
	case "ifconv":
		h.ifconv = true
	case "fresh":
		h.fresh = true
	case "bound":
		h.bounds = append(h.bounds, strings.TrimSpace(strings.TrimPrefix(line[3:], "bound")))
	case "outside":
		h.outside = append(h.outside, strings.TrimSpace(strings.TrimPrefix(line[3:], "outside")))
	case "assume":
		h.assumes = append(h.assumes, strings.TrimSpace(strings.TrimPrefix(line[3:], "assume")))
	case "stub":
		// vx:stub target = replacement
		rest := strings.TrimSpace(strings.TrimPrefix(line[3:], "stub"))
		parts := strings.SplitN(rest, "=", 2)
		if len(parts) != 2 {
			return fmt.Errorf("bad stub directive %q", line)
		}
		h.stubNotes = append(h.stubNotes, rest)
		tgt := e.findFunc(sp, strings.TrimSpace(parts[0]))
		rep := e.findFunc(sp, strings.TrimSpace(parts[1]))
		if tgt == nil {
			return fmt.Errorf("stub target %q not found in the current tree", strings.TrimSpace(parts[0]))
		}
		if rep == nil {
			return fmt.Errorf("stub replacement %q not found", strings.TrimSpace(parts[1]))
		}
		h.stubs[tgt.String()] = rep
	default:
		return fmt.Errorf("unknown directive %q", line)
	}
	return nil
}

// staticCovers lists the constant labels passed to vx.Cover in fn and its closures.
func staticCovers(fn *ssa.Function) []string {
	seen := map[string]bool{}
	var walk func(f *ssa.Function)
	walk = func(f *ssa.Function) {
		for _, b := range f.Blocks {
			for _, ins := range b.Instrs {
				c, ok := ins.(*ssa.Call)
				if !ok {
					continue
				}
				callee := c.Call.StaticCallee()
				if callee == nil || callee.Pkg == nil || callee.Pkg.Pkg.Path() != vxPath || callee.Name() != "Cover" {
					continue
				}
				if k, ok := c.Call.Args[0].(*ssa.Const); ok && k.Value != nil && k.Value.Kind() == constant.String {
					seen[constant.StringVal(k.Value)] = true
				}
			}
		}
		for _, a := range f.AnonFuncs {
			walk(a)
		}
	}
	walk(fn)
	var out []string
	for k := range seen {
		out = append(out, k)
	}
	sort.Strings(out)
	return out
}

// initGlobals interprets the package initialisers of the repository packages once
// per worker, concretely, and returns the resulting global objects.
func (e *Engine) initGlobals(w *worker) map[*ssa.Global]*Obj {
	dummy := &Harness{Name: "<init>", mode: ModeFP, stubs: map[string]*ssa.Function{}, maxDec: 0, maxSteps: 50_000_000}
	res := &HarnessResult{}
	st := e.newState(dummy, &worker{ts: w.ts, solver: nil, pristine: map[*ssa.Global]*Obj{}, fnInfos: w.fnInfos}, res, nil, nil, 0)
	func() {
		defer func() {
			if os.Getenv("VX_DEBUG") != "" {
				return
			}
			if r := recover(); r != nil {
				fmt.Fprintf(os.Stderr, "warning: package initialisation did not complete in the engine: %v\n", r)
			}
		}()
		for _, p := range e.pkgs {
			if !e.inRepoPkg(p.Pkg.Path()) || p.Pkg.Path() == vxPath {
				continue
			}
			if init := p.Func("init"); init != nil {
				st.callFunction(init, nil, nil)
			}
		}
	}()
	out := map[*ssa.Global]*Obj{}
	id := 1
	for g, o := range st.globals {
		o.id = id
		id++
		out[g] = o
	}
	return out
}

// ---------------------------------------------------------------- known findings

type KnownFinding struct {
	Status  string          `json:"status"` // known | fixed
	Prop    string          `json:"property"`
	Class   string          `json:"class,omitempty"`
	What    string          `json:"what"`
	Commit  string          `json:"commit,omitempty"`
	Witness json.RawMessage `json:"witness,omitempty"`
	Why     string          `json:"why_not_fixed,omitempty"`
}

func (e *Engine) loadKnown(path string) ([]KnownFinding, error) {
	b, err := os.ReadFile(path)
	if err != nil {
		if os.IsNotExist(err) {
			return nil, nil
		}
		return nil, err
	}
	var f struct {
		Findings []KnownFinding `json:"findings"`
	}
	if err := json.Unmarshal(b, &f); err != nil {
		return nil, err
	}
	for _, k := range f.Findings {
		if k.Status == "known" && k.Class != "" {
			e.knownOpen[k.Class] = true
			e.knownWhat[k.Prop+"|"+k.Class] = k.What
		}
	}
	return f.Findings, nil
}

#!/usr/bin/env python3
"""Design-time aid (NOT part of the checking machinery, not referenced by MANIFEST.json).

Applies the candidate repairs of DESIGN.md §7 to a *scratch copy* of the repository:
    cp -r /repo /tmp/scr && rm -rf /tmp/scr/.git && python3 candidate_repairs.py /tmp/scr
Used in round 0 to confirm that the unedited baseline suite still passes with the repairs
and to validate planned oracles against repaired behaviour. Never run it on /repo: real
repairs go in as individual `fix:` commits once the corresponding check reports the defect.
"""
import sys
root = sys.argv[1]
assert root.rstrip('/') != '/repo'

def patch(path, old, new):
    p = f"{root}/{path}"
    s = open(p).read()
    assert old in s, (path, old)
    open(p, 'w').write(s.replace(old, new, 1))

# 1 floor division in the K=2 base case of makeUmemo
patch('stats/udist.go', "\t\tr2High := (A_2i.twoU - A_2i.n1*(t[0]-A_2i.n1)) / N_2\n",
      "\t\tr2Num := A_2i.twoU - A_2i.n1*(t[0]-A_2i.n1)\n\t\tr2High := r2Num / N_2\n"
      "\t\tif r2Num < 0 && r2Num%N_2 != 0 {\n\t\t\t// Integer division truncates toward zero; we need floor.\n\t\t\tr2High--\n\t\t}\n")
# 2 exact upper tail with ties
patch('stats/utest.go', "p = 1 - dist.CDF(U1-1)", "p = 1 - dist.CDF(U1-0.5)")
# 4 Combine with an empty side
patch('stats/stream.go', "func (s *StreamStats) Combine(o *StreamStats) {\n",
      "func (s *StreamStats) Combine(o *StreamStats) {\n\tif o.Count == 0 {\n\t\treturn\n\t}\n"
      "\tif s.Count == 0 {\n\t\t*s = *o\n\t\treturn\n\t}\n")
# 5 histogram binning: floor, not truncation
patch('stats/linearhist.go', "return int(h.delta * (x - h.min))", "return int(math.Floor(h.delta * (x - h.min)))")
patch('stats/linearhist.go', "package stats\n", "package stats\n\nimport \"math\"\n")
patch('stats/loghist.go', "return int(h.mOverLogb * math.Log(x))", "return int(math.Floor(h.mOverLogb * math.Log(x)))")
# 6 HistogramQuantile: 0-based rank throughout; count the under-flow; q=1 means the last sample
patch('stats/hist.go',
      "\tif goal <= under || goal > total-over {\n\t\treturn math.NaN()\n\t}\n",
      "\tif goal >= total && total > 0 {\n\t\t// q == 1: the last sample.\n\t\tgoal = total - 1\n\t}\n"
      "\tif goal < under || goal >= total-over {\n\t\treturn math.NaN()\n\t}\n\tgoal -= under\n")
# 7 polynomial basis
patch('fit/lsquares.go', "math.Pow(x, float64(d+1))", "math.Pow(x, float64(d))")
# 8 Nice when only a non-finite level fits
patch('scale/linear.go',
      "\tfirstN, lastN, spacing := s.spacingAtLevel(level, true)\n\ts.Min = firstN * spacing\n\ts.Max = lastN * spacing\n",
      "\tfirstN, lastN, spacing := s.spacingAtLevel(level, true)\n\tmin, max := firstN*spacing, lastN*spacing\n"
      "\tif math.IsInf(min, 0) || math.IsNaN(min) || math.IsInf(max, 0) || math.IsNaN(max) {\n"
      "\t\t// No level with finite spacing satisfies o.\n\t\treturn\n\t}\n\ts.Min, s.Max = min, max\n")
patch('scale/log.go',
      "\tfirstN, lastN, base := s.spacingAtLevel(level, true)\n\ts.Min = math.Pow(base, firstN)\n",
      "\tfirstN, lastN, base := s.spacingAtLevel(level, true)\n\tif math.IsInf(base, 0) {\n"
      "\t\t// No level with a finite base satisfies o.\n\t\treturn\n\t}\n\ts.Min = math.Pow(base, firstN)\n")
# 9 NodeMarks.grow
patch('graph/graphalg/marks.go', "for k > n {", "for k < n {")
# 10 DomFrontier with unreachable predecessors
patch('graph/graphalg/dom.go', "\t\tfor _, pred := range preds {\n\t\t\trunner := pred\n",
      "\t\tfor _, pred := range preds {\n\t\t\tif idom[pred] == -1 && pred != root {\n"
      "\t\t\t\t// pred is unreachable from root.\n\t\t\t\tcontinue\n\t\t\t}\n\t\t\trunner := pred\n")
# 11 doubly-bounded KDE image series
patch('stats/kde.go', "return y(x-(n+1)*d+w) + y(x-(n+1)*d)", "return y(x-(n+1)*d-w) + y(x-(n+1)*d)")
# 12 QuantileCI, approximate branch: never trim to an empty interval (confidence <= 0)
patch('stats/quantileci.go',
      "if aBiased := cdf(l, rBiased); aBiased >= confidence && aBiased < res.Confidence {",
      "if aBiased := cdf(l, rBiased); rBiased > l && aBiased >= confidence && aBiased < res.Confidence {")
patch('stats/quantileci.go',
      "\t\tr = floorInt(math.Ceil(r1-0.5)+0.5) + 1\n",
      "\t\tr = floorInt(math.Ceil(r1-0.5)+0.5) + 1\n\t\tif r <= l {\n"
      "\t\t\t// [l1, r1] is a single half-integer point (or the\n\t\t\t// confidence is not positive). Keep one bucket.\n"
      "\t\t\tr = l + 1\n\t\t}\n")
print("patched", root)

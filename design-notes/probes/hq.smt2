; HistogramQuantile: goal = uint(float64(total)*q) <= total for q in [0,1], total < 2^22
(set-logic ALL)
(define-sort F () (_ FloatingPoint 11 53))
(declare-const q F) (declare-const total (_ BitVec 64))
(assert (bvult total #x0000000000400000))
(assert (fp.leq ((_ to_fp 11 53) RNE 0.0) q)) (assert (fp.leq q ((_ to_fp 11 53) RNE 1.0)))
(define-fun g () (_ BitVec 64) ((_ fp.to_ubv 64) RTZ (fp.mul RNE ((_ to_fp_unsigned 11 53) RNE total) q)))
(assert (not (bvule g total)))
(check-sat)

//go:build verif

package fit

import (
	"gonum.org/v1/gonum/mat"

	"github.com/aclements/go-moremath/internal/vx"
)

// A model of the part of gonum/mat that LinearLeastSquares uses (engine only, through //vx:stub):
// dense row-major storage kept in side tables keyed by the gonum pointer, exact arithmetic, views
// that alias their matrix, and SolveVec as "some exact solution of the system" (angelic: systems
// without one are outside the claim - the statement is about well-conditioned designs).

type vxMat struct {
	r, c int
	data []float64
}

var (
	vxDense = map[*mat.Dense]*vxMat{}
	vxVecs  = map[*mat.VecDense][]float64{}
	vxSolve int
)

func vxNewDense(r, c int, data []float64) *mat.Dense {
	if data == nil {
		data = make([]float64, r*c)
	}
	if len(data) != r*c {
		panic("mat: bad shape")
	}
	d := new(mat.Dense)
	vxDense[d] = &vxMat{r, c, data}
	return d
}

func vxDenseT(m *mat.Dense) mat.Matrix { return mat.Transpose{Matrix: m} }

func vxDims(m mat.Matrix) (int, int) {
	switch x := m.(type) {
	case *mat.Dense:
		s := vxDense[x]
		return s.r, s.c
	case mat.Transpose:
		r, c := vxDims(x.Matrix)
		return c, r
	}
	panic("vx gonum model: unsupported matrix type")
}

func vxAt(m mat.Matrix, i, j int) float64 {
	switch x := m.(type) {
	case *mat.Dense:
		s := vxDense[x]
		return s.data[i*s.c+j]
	case mat.Transpose:
		return vxAt(x.Matrix, j, i)
	}
	panic("vx gonum model: unsupported matrix type")
}

func vxDenseCopyOf(a mat.Matrix) *mat.Dense {
	r, c := vxDims(a)
	data := make([]float64, r*c)
	for i := 0; i < r; i++ {
		for j := 0; j < c; j++ {
			data[i*c+j] = vxAt(a, i, j)
		}
	}
	return vxNewDense(r, c, data)
}

func vxNewVecDense(n int, data []float64) *mat.VecDense {
	if data == nil {
		data = make([]float64, n)
	}
	if len(data) != n {
		panic("mat: bad shape")
	}
	v := new(mat.VecDense)
	vxVecs[v] = data
	return v
}

func vxRowView(m *mat.Dense, i int) mat.Vector {
	s := vxDense[m]
	v := new(mat.VecDense)
	vxVecs[v] = s.data[i*s.c : (i+1)*s.c]
	return v
}

func vxVecOf(v mat.Vector) []float64 { return vxVecs[v.(*mat.VecDense)] }

func vxMulElemVec(v *mat.VecDense, a, b mat.Vector) {
	va, vb, out := vxVecOf(a), vxVecOf(b), vxVecs[v]
	if len(va) != len(vb) || len(out) != len(va) {
		panic("mat: dimension mismatch")
	}
	for i := range out {
		out[i] = va[i] * vb[i]
	}
}

func vxDenseMul(m *mat.Dense, a, b mat.Matrix) {
	ar, ac := vxDims(a)
	br, bc := vxDims(b)
	s := vxDense[m]
	if ac != br || s.r != ar || s.c != bc {
		panic("mat: dimension mismatch")
	}
	out := make([]float64, ar*bc)
	for i := 0; i < ar; i++ {
		for j := 0; j < bc; j++ {
			sum := 0.0
			for k := 0; k < ac; k++ {
				sum += vxAt(a, i, k) * vxAt(b, k, j)
			}
			out[i*bc+j] = sum
		}
	}
	copy(s.data, out)
}

func vxMulVec(v *mat.VecDense, a mat.Matrix, b mat.Vector) {
	ar, ac := vxDims(a)
	vb, out := vxVecOf(b), vxVecs[v]
	if ac != len(vb) || len(out) != ar {
		panic("mat: dimension mismatch")
	}
	res := make([]float64, ar)
	for i := 0; i < ar; i++ {
		sum := 0.0
		for k := 0; k < ac; k++ {
			sum += vxAt(a, i, k) * vb[k]
		}
		res[i] = sum
	}
	copy(out, res)
}

// vxSolveVec: the receiver becomes some x with a*x = b exactly (square systems).
func vxSolveVec(v *mat.VecDense, a mat.Matrix, b mat.Vector) error {
	ar, ac := vxDims(a)
	vb, out := vxVecOf(b), vxVecs[v]
	if ar != ac || len(vb) != ar || len(out) != ac {
		panic("vx gonum model: only square systems")
	}
	vxSolve++
	sol := make([]float64, ac)
	for j := range sol {
		sol[j] = vx.FreshFloat("solve")
	}
	for i := 0; i < ar; i++ {
		sum := 0.0
		for k := 0; k < ac; k++ {
			sum += vxAt(a, i, k) * sol[k]
		}
		vx.Assume(sum == vb[i])
	}
	copy(out, sol)
	return nil
}

//go:build verif

package fit

import (
	"math"
	"sync"

	"github.com/aclements/go-moremath/internal/vx"
)

// vxConcurrentSame (native replay only): f evaluated from 8 goroutines at different points returns,
// bit for bit, what sequential evaluation returns. On code that keeps no state between evaluations
// this cannot fail; with scratch memory shared by the evaluations it fails with overwhelming
// probability (200000 overlapping evaluations).
func vxConcurrentSame(f func(float64) float64) bool {
	const pts = 64
	want := make([]float64, pts)
	q := func(i int) float64 { return 9.5 * float64(i) / pts }
	for i := range want {
		want[i] = f(q(i))
	}
	var wg sync.WaitGroup
	bad := make([]bool, 8)
	for g := 0; g < 8; g++ {
		wg.Add(1)
		go func(g int) {
			defer wg.Done()
			for r := 0; r < 25000 && !bad[g]; r++ {
				i := (r*7 + g*11) % pts
				got := f(q(i))
				if math.Float64bits(got) != math.Float64bits(want[i]) {
					bad[g] = true
				}
			}
		}(g)
	}
	wg.Wait()
	for _, b := range bad {
		if b {
			return false
		}
	}
	return true
}

func vxNativeData() (xs, ys []float64) {
	xs = []float64{3, 0, 1, 4, 2, 5, 7, 6, 9, 8, 3.5, 0.5}
	ys = make([]float64, len(xs))
	for i, x := range xs {
		ys[i] = math.Sin(x) + 0.1*x*x
	}
	return
}

func vxNativeLOESSConcurrent(degree int) bool {
	xs, ys := vxNativeData()
	return vxConcurrentSame(LOESS(xs, ys, degree, 0.6))
}

// VxC20_PolyF: the F of a PolynomialRegressionResult is a pure function of x (no store into memory
// that outlives the evaluation, same answer whatever was evaluated before), and the regression
// leaves xs, ys and weights alone.
//
//vx:mode R
//vx:solver z3
//vx:stub fit.LinearLeastSquares = vxLLSCapture
//vx:bound degree 0..4; 2 data points with optional weights; any real x1, x2; LinearLeastSquares replaced by "returns an arbitrary coefficient vector"
//vx:outside stores made inside gonum (LinearLeastSquares is stubbed)
func VxC20_PolyF() {
	d := vx.Choose("degree", 0, 4)
	if !vx.Engine() {
		xs, ys := vxNativeData()
		ok := vxConcurrentSame(PolynomialRegression(xs, ys, nil, d).F)
		vx.Assert(ok, "evaluating F stores into no memory shared between evaluations (race-free)")
		vx.Assert(ok, "F is deterministic whatever was evaluated before")
		return
	}
	xs, ys := vx.Floats("x", 2), vx.Floats("y", 2)
	var ws []float64
	if vx.Choose("weighted", 0, 1) == 1 {
		ws = vx.Floats("w", 2)
	}
	x1, x2 := vx.Float("x1"), vx.Float("x2")
	vx.Freeze(xs, ys, ws)
	r := PolynomialRegression(xs, ys, ws, d)
	vx.Epoch()
	a := r.F(x1)
	shared := vx.NoSharedWrites()
	r.F(x2)
	c := r.F(x1)
	vx.Thaw()
	vx.Assert(vx.Close(a, c, 0, 0), "F is deterministic whatever was evaluated before")
	vx.Assert(shared, "evaluating F stores into no memory shared between evaluations (race-free)")
}

// VxC20_LOESS: the curve returned by LOESS is a pure function: evaluating it stores into no memory
// that outlives the evaluation (so concurrent evaluations cannot race or disturb each other), it
// gives the same answer whatever was evaluated in between, and fitting leaves xs and ys alone.
// C20: "Every function is deterministic: repeated calls with equal arguments return bit-identical results, whatever calls were
// made before. Calls made concurrently from several goroutines on shared read-only inputs return the same results as sequential calls and are free of data races."
//
//vx:mode R
//vx:solver z3
//vx:maxdec 100000
//vx:stub fit.PolynomialRegression = vxPRCapture
//vx:bound n = 2..3 points in any order with distinct abscissae, window q = 2..n, degree 0..1, any real queries x1, x2; the schedule is abstracted: "no store into memory existing before the evaluation" implies race freedom for every interleaving
//vx:outside stores made inside gonum (PolynomialRegression is stubbed); the Go memory model itself
func VxC20_LOESS() {
	degree := vx.Choose("degree", 0, 1)
	if !vx.Engine() {
		ok := vxNativeLOESSConcurrent(degree)
		vx.Assert(ok, "evaluating the fitted curve stores into no memory shared between evaluations (race-free)")
		vx.Assert(ok, "the fitted curve is deterministic whatever was evaluated before")
		return
	}
	n := vx.Choose("n", 2, 3)
	q := vx.Choose("q", 2, n) // two or more distinct window points: the farthest distance is positive
	span := (float64(q) - 0.5) / float64(n)
	xs, ys := vx.Floats("x", n), vx.Floats("y", n)
	for i := range xs {
		for j := 0; j < i; j++ {
			vx.Assume(xs[i] != xs[j])
		}
	}
	x1, x2 := vx.Float("x1"), vx.Float("x2")
	vx.Freeze(xs, ys)
	f := LOESS(xs, ys, degree, span)
	vx.Epoch()
	a := f(x1)
	shared := vx.NoSharedWrites()
	w1 := append([]float64(nil), vxPR.ws...)
	f(x2)
	c := f(x1)
	vx.Thaw()
	same := len(vxPR.ws) == len(w1)
	for i := range w1 {
		same = same && i < len(vxPR.ws) && vx.Close(vxPR.ws[i], w1[i], 0, 0)
	}
	vx.Assert(same && vx.Close(a, c, 0, 0), "the fitted curve is deterministic whatever was evaluated before")
	vx.Assert(shared, "evaluating the fitted curve stores into no memory shared between evaluations (race-free)")
}

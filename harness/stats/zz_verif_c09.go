//go:build verif

package stats

import (
	"math"

	"github.com/aclements/go-moremath/internal/vx"
	"github.com/aclements/go-moremath/vec"
)

// VxC09_Moments: Mean, Variance, StdDev, Sum, Weight of a slice or unweighted Sample equal their
// definitions (exact-real reading: the one-pass formulas are algebraically the textbook ones; the
// right-hand sides are symmetric, so order-independence "beyond rounding" is the same identity).
// C09: "Mean, Variance (n-1 denominator), StdDev ... Sum, Weight ... equal the exact mathematical values".
//
//vx:mode R
//vx:solver z3
//vx:bound n = 0..5 (quick) / 0..8 (thorough) case-split, data arbitrary reals
//vx:outside "within a small multiple of rounding error": numerical stability at large offsets; n up to 200
func VxC09_Moments() {
	n := vx.Choose("n", 0, 5+3*vx.Tier())
	xs := vx.Floats("x", n)
	s := Sample{Xs: xs}
	if n == 0 {
		vx.Assert(math.IsNaN(Mean(xs)) && math.IsNaN(Variance(xs)) && math.IsNaN(s.Mean()), "empty data: NaN")
		vx.Assert(vec.Sum(xs) == 0 && s.Sum() == 0 && s.Weight() == 0, "empty data: zero sum and weight")
		return
	}
	sum := 0.0
	for _, x := range xs {
		sum += x
	}
	fn := float64(n)
	mean := sum / fn
	vx.Assert(vx.Close(vec.Sum(xs), sum, 1e-9, 1e-12), "vec.Sum is the sum")
	vx.Assert(vx.Close(s.Sum(), sum, 1e-9, 1e-12), "Sample.Sum is the sum")
	vx.Assert(s.Weight() == fn, "Sample.Weight of an unweighted sample is its length")
	vx.Assert(vx.Close(Mean(xs), mean, 1e-9, 1e-12), "Mean is sum/n")
	vx.Assert(vx.Close(s.Mean(), mean, 1e-9, 1e-12), "Sample.Mean is sum/n")
	if n == 1 {
		vx.Assert(Variance(xs) == 0, "Variance of one value is 0")
		return
	}
	ss := 0.0
	for _, x := range xs {
		ss += (x - mean) * (x - mean)
	}
	v := ss / float64(n-1)
	vx.Assert(vx.Close(Variance(xs), v, 1e-9, 1e-9), "Variance is the sum of squared deviations over n-1")
	vx.Assert(vx.Close(s.Variance(), v, 1e-9, 1e-9), "Sample.Variance likewise")
	sd := StdDev(xs)
	vx.Assert(sd >= 0 && vx.Close(sd*sd, Variance(xs), 1e-9, 1e-9), "StdDev is the non-negative root of Variance")
	vx.Assert(vx.Close(s.StdDev(), sd, 1e-12, 1e-12), "Sample.StdDev = StdDev")
}

// VxC09_WeightedMoments: weighted Mean, Sum and Weight equal their definitions.
//
//vx:mode R
//vx:solver z3
//vx:bound n = 1..4 (both tiers: the n = 5 query with five eliminated divisions is unknown at the 20 s cap), data arbitrary reals, weights arbitrary positive reals
func VxC09_WeightedMoments() {
	n := vx.Choose("n", 1, 4)
	xs, ws := vx.Floats("x", n), vx.Floats("w", n)
	sw, swx := 0.0, 0.0
	for i := range xs {
		vx.Assume(ws[i] > 0)
		sw += ws[i]
		swx += ws[i] * xs[i]
	}
	s := Sample{Xs: xs, Weights: ws}
	vx.Assert(vx.Close(s.Weight(), sw, 1e-9, 1e-12), "Sample.Weight is the total weight")
	vx.Assert(vx.Close(s.Sum(), swx, 1e-9, 1e-12), "Sample.Sum is the weighted sum")
	vx.Assert(vx.Close(s.Mean()*sw, swx, 1e-9, 1e-9), "Sample.Mean is the weighted sum over the total weight")
}

// vxExpand repeats each value weight times.
func vxExpand(xs []float64, ws []int) []float64 {
	var out []float64
	for i, x := range xs {
		for k := 0; k < ws[i]; k++ {
			out = append(out, x)
		}
	}
	return out
}

// VxC09_IntegerWeights: integer weights are repetition; zero-weight values are ignored.
// C09: "A Sample with non-negative integer weights gives the same Mean, GeoMean, Sum, Weight and Bounds as the
// unweighted sample in which each value is repeated weight times (zero-weight values are ignored by Bounds)".
//
//vx:mode FP
//vx:solver cvc5
//vx:timeout 60000
//vx:bound n = 1..3, integer weights 0..2 case-split (at least one positive), data any finite float64 with |x| <= 1e100: NaN-freedom and Bounds bit-precisely
func VxC09_IntegerWeights() {
	n := vx.Choose("n", 1, 3)
	xs := vx.Floats("x", n)
	ws := make([]int, n)
	fw := make([]float64, n)
	tot := 0
	for i := range xs {
		vx.Assume(vx.And(xs[i] >= -1e100, xs[i] <= 1e100))
		ws[i] = vx.Choose(vxName("w", i), 0, 2)
		fw[i] = float64(ws[i])
		tot += ws[i]
	}
	vx.Assume(tot > 0)
	s := Sample{Xs: xs, Weights: fw}
	ex := vxExpand(xs, ws)
	vx.Assert(!math.IsNaN(s.Mean()), "weighted Mean is a number when some weight is positive (zero weights are ignored)")
	vx.Assert(s.Weight() == float64(len(ex)), "Weight equals the repetition count")
	lo, hi := s.Bounds()
	elo, ehi := Bounds(ex)
	vx.Assert(lo == elo && hi == ehi, "Bounds equal those of the repeated sample (zero weights ignored)")
}

// VxC09_IntegerWeightsR: the same equalities for Mean and Sum in the exact-real reading.
//
//vx:mode R
//vx:solver z3
//vx:bound n = 1..3 (quick) / 1..4 (thorough), integer weights 0..3 case-split, data arbitrary reals
func VxC09_IntegerWeightsR() {
	n := vx.Choose("n", 1, 3+vx.Tier())
	xs := vx.Floats("x", n)
	ws := make([]int, n)
	fw := make([]float64, n)
	tot := 0
	for i := range xs {
		ws[i] = vx.Choose(vxName("w", i), 0, 3)
		fw[i] = float64(ws[i])
		tot += ws[i]
	}
	vx.Assume(tot > 0)
	s := Sample{Xs: xs, Weights: fw}
	ex := vxExpand(xs, ws)
	vx.Assert(vx.Close(s.Mean(), Mean(ex), 1e-9, 1e-9), "weighted Mean equals the Mean of the repeated sample")
	vx.Assert(vx.Close(s.Sum(), vec.Sum(ex), 1e-9, 1e-9), "weighted Sum equals the Sum of the repeated sample")
}

// VxC09_Bounds: Bounds returns the least and greatest element, ignoring zero-weight entries;
// marking ascending data as Sorted changes nothing.
//
//vx:mode ORD
//vx:solver z3
//vx:bound n = 0..4 (quick) / 0..6 (thorough); data any finite floats (order-only reading, exact for comparison-only code); weights: each zero or non-zero
func VxC09_Bounds() {
	n := vx.Choose("n", 0, 4+2*vx.Tier())
	xs := vx.Floats("x", n)
	lo, hi := Bounds(xs)
	if n == 0 {
		vx.Assert(math.IsNaN(lo) && math.IsNaN(hi), "Bounds of nothing is NaN, NaN")
		slo, shi := Sample{}.Bounds()
		vx.Assert(math.IsNaN(slo) && math.IsNaN(shi), "Sample.Bounds of nothing is NaN, NaN")
		return
	}
	inLo, inHi := false, false
	for _, x := range xs {
		vx.Assert(lo <= x && x <= hi, "every value lies within Bounds")
		inLo = vx.Or(inLo, x == lo)
		inHi = vx.Or(inHi, x == hi)
	}
	vx.Assert(inLo && inHi, "Bounds are attained")
	slo, shi := Sample{Xs: xs}.Bounds()
	vx.Assert(slo == lo && shi == hi, "Sample.Bounds = Bounds for unweighted data")
	// weighted: zero-weight entries are ignored
	ws := make([]float64, n)
	any := false
	for i := range ws {
		if vx.Choose(vxName("zero", i), 0, 1) == 1 {
			ws[i] = 0
		} else {
			ws[i] = vx.FloatI("w", i)
			vx.Assume(ws[i] != 0)
			any = true
		}
	}
	sorted := true
	for i := 1; i < n; i++ {
		sorted = vx.And(sorted, xs[i-1] <= xs[i])
	}
	wlo, whi := Sample{Xs: xs, Weights: ws}.Bounds()
	if !any {
		vx.Cover("all-zero-weight")
		vx.Assert(math.IsNaN(wlo) && math.IsNaN(whi), "all weights zero: NaN, NaN")
	} else {
		aLo, aHi := false, false
		for i, x := range xs {
			if ws[i] != 0 {
				vx.Assert(wlo <= x && x <= whi, "every positively weighted value lies within the weighted Bounds")
				aLo = vx.Or(aLo, x == wlo)
				aHi = vx.Or(aHi, x == whi)
			}
		}
		vx.Assert(aLo && aHi, "weighted Bounds are attained by weighted values")
	}
	if sorted {
		vx.Cover("ascending")
		s2lo, s2hi := Sample{Xs: xs, Weights: ws, Sorted: true}.Bounds()
		vx.Assert((s2lo == wlo && s2hi == whi) || (math.IsNaN(s2lo) && math.IsNaN(wlo) && math.IsNaN(s2hi) && math.IsNaN(whi)), "Sorted flag does not change weighted Bounds of ascending data")
		u1, u2 := Sample{Xs: xs, Sorted: true}.Bounds()
		vx.Assert(u1 == lo && u2 == hi, "Sorted flag does not change Bounds of ascending data")
	}
}

// VxC09_SortCopy: Sort orders ascending keeping each weight with its value; Copy shares no storage.
//
//vx:mode ORD
//vx:solver z3
//vx:maxdec 20000
//vx:bound n = 0..4 (quick) / 0..5 (thorough); values and weights any finite floats; sort.Sort interpreted from the standard library's SSA (insertion sort for n <= 12)
func VxC09_SortCopy() {
	n := vx.Choose("n", 0, 4+vx.Tier())
	xs, ws := vx.Floats("x", n), vx.Floats("w", n)
	orig := Sample{Xs: xs, Weights: ws}
	vx.Freeze(xs, ws)
	c := orig.Copy()
	vx.Assert(len(c.Xs) == n && len(c.Weights) == n && !c.Sorted, "Copy has the same shape")
	for i := 0; i < n; i++ {
		vx.Assert(c.Xs[i] == xs[i] && c.Weights[i] == ws[i], "Copy has the same contents")
	}
	c.Sort() // sorts the copy in place; the frozen original must not change
	vx.Thaw()
	vx.Assert(c.Sorted, "Sort sets Sorted")
	for i := 1; i < n; i++ {
		vx.Assert(c.Xs[i-1] <= c.Xs[i], "Sort orders the values ascending")
	}
	for i := 0; i < n; i++ {
		in, out := 0, 0
		for k := 0; k < n; k++ {
			in += vx.IteInt(vx.And(xs[k] == xs[i], ws[k] == ws[i]), 1, 0)
			out += vx.IteInt(vx.And(c.Xs[k] == xs[i], c.Weights[k] == ws[i]), 1, 0)
		}
		vx.Assert(in == out, "Sort keeps each weight attached to its value (the multiset of pairs is unchanged)")
	}
	// Sort on already sorted data is a no-op
	d := c.Copy()
	d.Sorted = false
	d.Sort()
	for i := 0; i < n; i++ {
		vx.Assert(d.Xs[i] == c.Xs[i] && d.Weights[i] == c.Weights[i], "sorting sorted data changes nothing")
	}
	// unweighted Sort
	u := Sample{Xs: xs}.Copy().Sort()
	for i := 1; i < n; i++ {
		vx.Assert(u.Xs[i-1] <= u.Xs[i], "unweighted Sort orders ascending")
	}
	vx.Assert(u.Weights == nil, "Copy keeps nil weights nil")
}

// VxC09_GeoMean: NaN as soon as an unweighted value is not positive; otherwise exp of the mean log.
//
//vx:mode R
//vx:solver z3
//vx:bound n = 0..4; data arbitrary reals; log/exp uninterpreted (congruence only)
func VxC09_GeoMean() {
	n := vx.Choose("n", 0, 4)
	xs := vx.Floats("x", n)
	g := GeoMean(xs)
	if n == 0 {
		vx.Assert(math.IsNaN(g), "GeoMean of nothing is NaN")
		return
	}
	bad := false
	for _, x := range xs {
		if x <= 0 {
			bad = true
		}
	}
	if bad {
		vx.Cover("nonpositive")
		vx.Assert(math.IsNaN(g), "GeoMean is NaN when a value is not positive")
		return
	}
	sl := 0.0
	for _, x := range xs {
		sl += math.Log(x)
	}
	vx.Assert(vx.Close(g, math.Exp(sl/float64(n)), 1e-9, 1e-12), "GeoMean is exp of the mean of the logs")
	vx.Assert(vx.Close(Sample{Xs: xs}.GeoMean(), g, 1e-12, 1e-12), "Sample.GeoMean = GeoMean for unweighted data")
}

// VxC09_Vec: the vec helpers satisfy their defining identities.
//
//vx:mode R
//vx:solver z3
//vx:bound Linspace/Logspace n = 0..5; Concat of up to 3 slices of length 0..2; Map/Vectorize on length 0..3
func VxC09_Vec() {
	lo, hi := vx.Float("lo"), vx.Float("hi")
	n := vx.Choose("n", 0, 5)
	ls := vec.Linspace(lo, hi, n)
	vx.Assert(len(ls) == n, "Linspace has the requested length")
	if n == 1 {
		vx.Assert(ls[0] == lo, "Linspace with one point is [lo]")
	}
	for i := 0; i < n && n > 1; i++ {
		vx.Assert(vx.Close(ls[i]*float64(n-1), lo*float64(n-1)+float64(i)*(hi-lo), 1e-9, 1e-9), "Linspace[i] = lo + i(hi-lo)/(n-1)")
	}
	if n > 1 {
		vx.Assert(vx.Close(ls[0], lo, 1e-12, 1e-12) && vx.Close(ls[n-1], hi, 1e-9, 1e-9), "Linspace runs from lo to hi")
	}
	lg := vec.Logspace(lo, hi, n, 10)
	for i := 0; i < n; i++ {
		vx.Assert(vx.Close(lg[i], math.Pow(10, ls[i]), 1e-12, 0), "Logspace is base^Linspace elementwise")
	}
	// Map / Vectorize
	m := vx.Choose("m", 0, 3)
	xs := vx.Floats("x", m)
	vx.Freeze(xs)
	f := func(x float64) float64 { return 2*x + 1 }
	r1 := vec.Map(f, xs)
	r2 := vec.Vectorize(f)(xs)
	vx.Assert(len(r1) == m && len(r2) == m, "Map keeps the length")
	for i := 0; i < m; i++ {
		vx.Assert(r1[i] == 2*xs[i]+1 && r2[i] == r1[i], "Map and Vectorize apply f elementwise, in order")
	}
	// Concat
	// the first argument is a prefix of a larger buffer: spare capacity must not be written into
	la := vx.Choose("la", 0, 2)
	abuf := vx.Floats("a", la+4)
	a, b := abuf[:la], vx.Floats("b", vx.Choose("lb", 0, 2))
	vx.Freeze(abuf, b)
	c := vec.Concat(a, xs, b)
	vx.Assert(len(c) == len(a)+m+len(b), "Concat has the summed length")
	for i := range c {
		var want float64
		switch {
		case i < len(a):
			want = a[i]
		case i < len(a)+m:
			want = xs[i-len(a)]
		default:
			want = b[i-len(a)-m]
		}
		vx.Assert(c[i] == want, "Concat keeps the inputs in order")
	}
	if len(c) > 0 {
		c[0] = c[0] + 1 // writing through the result must not touch the (frozen) inputs
	}
	vx.Thaw()
}

// VxC09_LinspaceFirst: Linspace(lo,hi,n)[0] == lo bit-precisely for moderate magnitudes.
//
//vx:mode FP
//vx:solver cvc5
//vx:timeout 60000
//vx:bound n = 2..4; any float64 lo, hi with |lo|,|hi| <= 1e150
func VxC09_LinspaceFirst() {
	lo, hi := vx.Float("lo"), vx.Float("hi")
	vx.Assume(vx.And(math.Abs(lo) <= 1e150, math.Abs(hi) <= 1e150))
	n := vx.Choose("n", 2, 4)
	ls := vec.Linspace(lo, hi, n)
	vx.Assert(ls[0] == lo, "Linspace[0] == lo")
}

//go:build verif

package stats

import (
	"math"

	"github.com/aclements/go-moremath/internal/vx"
)

// vxStreamFP builds an arbitrary StreamStats whose observable order statistics are symbolic
// (representation invariant: an accumulator that has seen nothing is all zero; otherwise
// Min <= Max and nothing is NaN).
func vxStreamFP(p string) *StreamStats {
	s := &StreamStats{}
	if vx.Bool(p + ".empty") {
		return s
	}
	s.Count = vx.Uint(p + ".Count")
	s.Min = vx.Float(p + ".Min")
	s.Max = vx.Float(p + ".Max")
	s.Total = vx.Float(p + ".Total")
	vx.Assume(vx.And(s.Count >= 1, s.Count < 1<<40))
	vx.Assume(s.Min <= s.Max) // excludes NaN in both
	vx.Assume(!math.IsNaN(s.Total))
	return s
}

// VxC13_AddOrder: one Add from an arbitrary state: Count, Min, Max, Total (bit-exact float semantics).
// C13: "After any sequence of Add calls, StreamStats reports Count, Total, Min, Max ... equal to those of the values added".
//
//vx:mode FP
//vx:bound any pre-state (Count < 2^40, Min <= Max, no NaN), any non-NaN x: one inductive step, so Add histories of any length
func VxC13_AddOrder() {
	s := vxStreamFP("s")
	x := vx.Float("x")
	vx.Assume(!math.IsNaN(x))
	c0, min0, max0, tot0 := s.Count, s.Min, s.Max, s.Total
	s.Add(x)
	vx.Assert(s.Count == c0+1, "Add: Count increases by one")
	vx.Assert(vx.SameBits(s.Total, tot0+x), "Add: Total is the running sum")
	if c0 == 0 {
		vx.Cover("first")
		vx.Assert(vx.SameBits(s.Min, x), "Add to empty: Min is x")
		vx.Assert(vx.SameBits(s.Max, x), "Add to empty: Max is x")
	} else {
		vx.Cover("later")
		vx.Assert(s.Min == vx.Ite(x < min0, x, min0), "Add: Min is the minimum so far")
		vx.Assert(s.Max == vx.Ite(x > max0, x, max0), "Add: Max is the maximum so far")
		vx.Assert(s.Min <= s.Max, "Add keeps Min <= Max")
	}
}

// VxC13_CombineOrder: Combine for all four emptiness combinations: Count, Total, Min, Max.
// C13: "Combining any two StreamStats, including ones that have received no values, yields the same statistics as adding both sequences to a single StreamStats".
//
//vx:mode FP
//vx:bound any two states under the representation invariant (either may be empty): one merge step, so any merge tree
func VxC13_CombineOrder() {
	s := vxStreamFP("s")
	o := vxStreamFP("o")
	sc, oc := s.Count, o.Count
	smin, smax, stot := s.Min, s.Max, s.Total
	omin, omax, otot := o.Min, o.Max, o.Total
	vx.Freeze(o)
	s.Combine(o)
	vx.Thaw()
	vx.Assert(s.Count == sc+oc, "Combine: Count adds")
	switch {
	case sc == 0 && oc == 0:
		vx.Cover("both-empty")
		vx.Assert(s.Min == 0 && s.Max == 0 && s.Total == 0, "Combine of two empty accumulators stays empty")
		vx.Assert(!math.IsNaN(s.mean) && !math.IsNaN(s.meanOfSquares) && !math.IsNaN(s.vM2), "Combine of two empty accumulators must not poison the moments with NaN")
	case sc == 0:
		vx.Cover("into-empty")
		vx.Assert(vx.SameBits(s.Min, omin), "Combine into an empty accumulator: Min is the other side's Min")
		vx.Assert(vx.SameBits(s.Max, omax), "Combine into an empty accumulator: Max is the other side's Max")
		vx.Assert(s.Total == otot, "Combine into an empty accumulator: Total is the other side's Total")
	case oc == 0:
		vx.Cover("empty-arg")
		vx.Assert(vx.SameBits(s.Min, smin), "Combine with an empty accumulator: Min unchanged")
		vx.Assert(vx.SameBits(s.Max, smax), "Combine with an empty accumulator: Max unchanged")
		vx.Assert(s.Total == stot, "Combine with an empty accumulator: Total unchanged")
	default:
		vx.Cover("both-nonempty")
		vx.Assert(s.Min == vx.Ite(omin < smin, omin, smin), "Combine: Min is the smaller Min")
		vx.Assert(s.Max == vx.Ite(omax > smax, omax, smax), "Combine: Max is the larger Max")
		vx.Assert(vx.SameBits(s.Total, stot+otot), "Combine: Total adds")
	}
}

// vxStreamR: arbitrary valid state in the exact-real reading, described by ghost
// power sums (n, S1, S2) of the multiset seen so far.
func vxStreamR(p string, n uint) (s *StreamStats, S1, S2 float64) {
	s = &StreamStats{}
	if n == 0 {
		return s, 0, 0
	}
	S1 = vx.Float(p + ".S1")
	S2 = vx.Float(p + ".S2")
	fn := float64(n)
	s.Count = n
	s.Total = S1
	s.mean = S1 / fn
	s.meanOfSquares = S2 / fn
	s.vM2 = S2 - S1*S1/fn
	return
}

// VxC13_AddMoments: the Welford update keeps mean, mean of squares and M2 equal to their
// definitions in terms of the power sums (exact-real reading: the formulas are algebraically right).
//
//vx:mode R
//vx:solver z3
//vx:bound n = Count in 0..12 (quick) / 0..40 (thorough) case-split, ghost sums S1,S2 and x arbitrary reals: one inductive step per n
//vx:outside rounding drift of mean/vM2 over long streams (decided only in the exact-real reading)
func VxC13_AddMoments() {
	n := uint(vx.Choose("n", 0, 12+28*vx.Tier()))
	s, S1, S2 := vxStreamR("s", n)
	x := vx.Float("x")
	s.Add(x)
	m := float64(n + 1)
	vx.Assert(s.Count == n+1, "Add: Count")
	vx.Assert(vx.Close(s.Mean(), (S1+x)/m, 1e-9, 1e-12), "Add: Mean is sum/n")
	vx.Assert(vx.Close(s.meanOfSquares, (S2+x*x)/m, 1e-9, 1e-12), "Add: mean of squares is sum of squares/n")
	vx.Assert(vx.Close(s.vM2, (S2+x*x)-(S1+x)*(S1+x)/m, 1e-9, 1e-9), "Add: M2 is the sum of squared deviations")
	if n >= 1 {
		vx.Assert(vx.Close(s.Variance(), ((S2+x*x)-(S1+x)*(S1+x)/m)/float64(n), 1e-9, 1e-9), "Variance is M2/(n-1)")
	}
}

// VxC13_CombineMoments: the parallel merge keeps the moment relations for the union.
//
//vx:mode R
//vx:solver z3
//vx:bound n1, n2 in 0..6 (quick) / 0..16 (thorough) case-split incl. empty sides; ghost sums arbitrary reals
func VxC13_CombineMoments() {
	hi := 6 + 10*vx.Tier()
	n1 := uint(vx.Choose("n1", 0, hi))
	n2 := uint(vx.Choose("n2", 0, hi))
	s, S1, S2 := vxStreamR("s", n1)
	o, T1, T2 := vxStreamR("o", n2)
	s.Combine(o)
	n := n1 + n2
	vx.Assert(s.Count == n, "Combine: Count")
	if n == 0 {
		return
	}
	fn := float64(n)
	vx.Assert(vx.Close(s.Mean(), (S1+T1)/fn, 1e-9, 1e-12), "Combine: Mean of the union")
	vx.Assert(vx.Close(s.meanOfSquares, (S2+T2)/fn, 1e-9, 1e-12), "Combine: mean of squares of the union")
	vx.Assert(vx.Close(s.vM2, (S2+T2)-(S1+T1)*(S1+T1)/fn, 1e-9, 1e-9), "Combine: M2 of the union")
	vx.Assert(vx.Close(s.Total, S1+T1, 1e-9, 1e-12), "Combine: Total of the union")
}

// VxC13_Derived: Weight, Mean, Variance, StdDev, RMS are the documented functions of the state.
//
//vx:mode FP
func VxC13_Derived() {
	s := &StreamStats{Count: vx.Uint("Count"), mean: vx.Float("mean"), meanOfSquares: vx.Float("msq"), vM2: vx.Float("vM2")}
	vx.Assume(vx.And(s.Count >= 2, s.Count < 1<<40))
	vx.Assert(vx.SameBits(s.Weight(), float64(s.Count)), "Weight is the count")
	vx.Assert(vx.SameBits(s.Mean(), s.mean), "Mean")
	vx.Assert(vx.SameBits(s.Variance(), s.vM2/float64(s.Count-1)), "Variance = M2/(n-1)")
	vx.Assert(vx.SameBits(s.StdDev(), math.Sqrt(s.vM2/float64(s.Count-1))), "StdDev = sqrt(Variance)")
	vx.Assert(vx.SameBits(s.RMS(), math.Sqrt(s.meanOfSquares)), "RMS = sqrt(mean of squares)")
}

//go:build verif

package stats

import (
	"math"

	"github.com/aclements/go-moremath/internal/vx"
)

// VxC06_BinomialArgs: argument handling of BinomialDist for every real k.
// C06: "PMF(k) ... is zero outside the support and treats a non-integer k as floor(k); CDF(k) ... is 0 below the support
// and 1 from its top. Bounds returns exactly the support end points, Step is 1 ... NormalApprox is the normal
// distribution with that mean and variance."
//
//vx:mode FP
//vx:solver cvc5
//vx:maxdec 100000
//vx:stub mathx.BetaInc = vxBetaIncUF
//vx:bound N = 0..4 (quick) / 0..8 (thorough), P in {0, 0.3, 1} (case split); k any non-NaN float64 including values beyond the int64 range (the solver partitions the line into the unit cells); BetaInc uninterpreted (congruence only)
//vx:outside the numerical values of PMF/CDF against exact rational probabilities; CDF = sum of PMF; moments of the PMF
func VxC06_BinomialArgs() {
	n := vx.Choose("N", 0, 4+4*vx.Tier())
	p := []float64{0, 0.3, 1}[vx.Choose("P", 0, 2)]
	d := BinomialDist{N: n, P: p}
	k := vx.Float("k")
	vx.Assume(!math.IsNaN(k))
	lo, hi := d.Bounds()
	vx.Assert(lo == 0 && hi == float64(n) && d.Step() == 1, "Bounds are the support end points, Step is 1")
	vx.Assert(vx.SameBits(d.Mean(), float64(n)*p) && vx.SameBits(d.Variance(), float64(n)*p*(1-p)), "Mean = NP, Variance = NP(1-P)")
	na := d.NormalApprox()
	vx.Assert(vx.SameBits(na.Mu, d.Mean()) && vx.SameBits(na.Sigma, math.Sqrt(d.Variance())), "NormalApprox has that mean and variance")
	if k < 0 {
		vx.Cover("below")
		vx.Assert(d.PMF(k) == 0 && d.CDF(k) == 0, "no mass below 0")
		return
	}
	if k >= float64(n)+1 {
		vx.Cover("above")
		vx.Assert(d.PMF(k) == 0 && d.CDF(k) == 1, "all mass at or below N")
		return
	}
	ki := vx.Concretize(int(math.Floor(k)))
	// PMF against C(N,k) P^k (1-P)^(N-k) with the coefficient in exact integers (concrete per (N, P, floor k))
	if ki >= 0 && ki <= n {
		want := float64(vxPascal(n, ki))
		for i := 0; i < ki; i++ {
			want *= p
		}
		for i := ki; i < n; i++ {
			want *= 1 - p
		}
		vx.Assert(vx.Near(d.PMF(float64(ki)), want, 1e-10, 1e-14), "binomial PMF is C(N,k) P^k (1-P)^(N-k)")
	}
	vx.Assert(vx.SameBits(d.PMF(k), d.PMF(float64(ki))), "a non-integer k is treated as floor(k) by PMF")
	if ki >= n {
		vx.Assert(d.CDF(k) == 1, "CDF is 1 from the top of the support")
	} else {
		vx.Assert(vx.SameBits(d.CDF(k), d.CDF(float64(ki))), "a non-integer k is treated as floor(k) by CDF")
	}
}

// VxC06_HypergeometricSupport: Bounds returns exactly the support; PMF is 0 outside it and
// floors k; CDF is 0 below and 1 from the top; the tail flip stays inside the support.
//
//vx:mode FP
//vx:solver cvc5
//vx:timeout 60000
//vx:bound N, K, Draws symbolic ints with 2 <= N <= 2^30, 0 <= K, Draws <= N; a probe support point j symbolic
func VxC06_HypergeometricSupport() {
	N, K, D := vx.Int("N"), vx.Int("K"), vx.Int("Draws")
	vx.Assume(vx.And(N >= 2, N <= 1<<30))
	vx.Assume(vx.And(vx.And(K >= 0, K <= N), vx.And(D >= 0, D <= N)))
	d := HypergeometicDist{N: N, K: K, Draws: D}
	l, h := d.bounds()
	j := vx.Int("j")
	vx.Assume(vx.And(j >= -1, j <= N+1))
	inSupport := vx.And(vx.And(j >= 0, j <= K), vx.And(D-j >= 0, D-j <= N-K))
	vx.Assert(inSupport == vx.And(j >= l, j <= h), "Bounds are exactly the least and greatest k with 0 <= k <= K and 0 <= Draws-k <= N-K")
	vx.Assert(l <= h, "the support is not empty")
	vx.Assert(d.Step() == 1, "Step is 1")
}

// VxC06_HypergeometricArgs: argument handling for every real k on small concrete populations.
//
//vx:mode FP
//vx:solver cvc5
//vx:maxdec 100000
//vx:bound N = 2..5 (quick) / 2..7 (thorough), every K, Draws <= N (case split); k any non-NaN float64
//vx:outside the numerical values of PMF/CDF
func VxC06_HypergeometricArgs() {
	N := vx.Choose("N", 2, 5+2*vx.Tier())
	K := vx.Choose("K", 0, N)
	D := vx.Choose("Draws", 0, N)
	d := HypergeometicDist{N: N, K: K, Draws: D}
	lo, hi := d.Bounds()
	k := vx.Float("k")
	vx.Assume(!math.IsNaN(k))
	if k < lo {
		vx.Cover("below")
		vx.Assert(d.PMF(k) == 0 && d.CDF(k) == 0, "no mass below the support")
		return
	}
	if k >= hi+1 {
		vx.Cover("above")
		vx.Assert(d.PMF(k) == 0 && d.CDF(k) == 1, "all mass at or below the top of the support")
		return
	}
	ki := vx.Concretize(int(math.Floor(k)))
	var pk, ck float64
	if vx.Panics(func() { pk = d.PMF(k); ck = d.CDF(k) }) {
		vx.Assert(false, "PMF/CDF do not panic inside the support")
		return
	}
	vx.Assert(vx.SameBits(pk, d.PMF(float64(ki))), "a non-integer k is treated as floor(k) by PMF")
	if float64(ki) >= hi {
		vx.Assert(ck == 1, "CDF is 1 from the top of the support")
	} else {
		vx.Assert(vx.SameBits(ck, d.CDF(float64(ki))), "a non-integer k is treated as floor(k) by CDF")
	}
	vx.Assert(vx.SameBits(d.Mean(), float64(D*K)/float64(N)), "Mean = Draws*K/N")
	// the first two moments of the PMF over the support (concrete per (N, K, Draws))
	m1, m2 := 0.0, 0.0
	for j := int(lo); j <= int(hi); j++ {
		pj := d.PMF(float64(j))
		m1 += float64(j) * pj
		m2 += float64(j) * float64(j) * pj
	}
	// PMF against the counting formula C(K,j) C(N-K,Draws-j) / C(N,Draws) in exact integers
	for j := int(lo); j <= int(hi); j++ {
		want := float64(vxPascal(K, j)*vxPascal(N-K, D-j)) / float64(vxPascal(N, D))
		vx.Assert(vx.Near(d.PMF(float64(j)), want, 1e-10, 1e-12), "hypergeometric PMF is C(K,k) C(N-K,Draws-k) / C(N,Draws)")
	}
	vx.Assert(vx.Near(d.Mean(), m1, 1e-10, 1e-12), "Mean is the first moment of the PMF")
	vx.Assert(vx.Near(d.Variance(), m2-m1*m1, 1e-9, 1e-10), "Variance is the second central moment of the PMF")
}

// vxBetaIncUF: the incomplete beta function as an uninterpreted function of its arguments.
func vxBetaIncUF(x, a, b float64) float64 { return vx.UFloat("betaincuf", x, a, b) }

// VxC06_CDFSumsPMF: CDF(k) equals the sum of PMF over the integers <= floor(k), for every real k
// (the solver partitions the line into the unit cells; on a cell both sides are evaluated on the real code).
// C06: "CDF(k) equals the sum of PMF over integers <= floor(k)".
//
//vx:mode FP
//vx:solver cvc5
//vx:maxdec 100000
//vx:maxsteps 200000000
//vx:bound hypergeometric: N = 2..6 (quick) / 2..9 (thorough), every K, Draws <= N; binomial: N = 0..5 (quick) / 0..8 (thorough), P in {0.3, 0.5}; k any non-NaN float64; tolerance 1e-10
//vx:outside agreement of PMF itself with the exact rational probability
func VxC06_CDFSumsPMF() {
	k := vx.Float("k")
	vx.Assume(!math.IsNaN(k))
	var pmf func(float64) float64
	var cdf func(float64) float64
	var lo, hi float64
	if vx.Choose("binomial", 0, 1) == 1 {
		d := BinomialDist{N: vx.Choose("N", 0, 5+3*vx.Tier()), P: []float64{0.3, 0.5}[vx.Choose("P", 0, 1)]}
		pmf, cdf = d.PMF, d.CDF
		lo, hi = d.Bounds()
	} else {
		N := vx.Choose("N", 2, 6+3*vx.Tier())
		d := HypergeometicDist{N: N, K: vx.Choose("K", 0, N), Draws: vx.Choose("Draws", 0, N)}
		pmf, cdf = d.PMF, d.CDF
		lo, hi = d.Bounds()
	}
	vx.Assume(vx.And(k >= lo, k < hi+1))
	ki := vx.Concretize(int(math.Floor(k)))
	sum := 0.0
	for j := int(lo); j <= ki; j++ {
		sum += pmf(float64(j))
	}
	// (that a non-integer k is treated as floor(k) is decided in VxC06_*Args; here the cell's integer is used)
	vx.Assert(math.Abs(cdf(float64(ki))-sum) <= 1e-10, "CDF(k) is the sum of PMF over the integers up to floor(k)")
}

// vxPascal is the binomial coefficient by Pascal's rule in exact integers (0 outside 0..n).
func vxPascal(n, k int) int64 {
	if k < 0 || k > n || n < 0 {
		return 0
	}
	row := []int64{1}
	for i := 1; i <= n; i++ {
		next := make([]int64, i+1)
		next[0], next[i] = 1, 1
		for j := 1; j < i; j++ {
			next[j] = row[j-1] + row[j]
		}
		row = next
	}
	return row[k]
}

//go:build verif

package stats

import (
	"math"

	"github.com/aclements/go-moremath/internal/vx"
)

// vxApproxP is the statement's normal approximation.
func vxApproxP(r vxRanking, twoU int, alt LocationHypothesis) float64 {
	n1, n2 := float64(r.n1), float64(r.n2)
	N := n1 + n2
	t := 0.0
	for _, c := range r.ties {
		fc := float64(c)
		t += fc*fc*fc - fc
	}
	mu := n1 * n2 / 2
	sigma := math.Sqrt(n1 * n2 / 12 * ((N + 1) - t/(N*(N-1))))
	U := float64(twoU) / 2
	switch alt {
	case LocationLess:
		return StdNormal.CDF((U + 0.5 - mu) / sigma)
	case LocationGreater:
		return 1 - StdNormal.CDF((U-0.5-mu)/sigma)
	}
	return math.Min(1, 2*(1-StdNormal.CDF((math.Abs(U-mu)-0.5)/sigma)))
}

// VxC03_Laws: errors, purity, range of P, the swap law, and the method switch-over with the
// normal approximation, for every order and tie pattern and symbolic values of the two limits.
// C03: "leaves its arguments unmodified, returns ErrSampleSize exactly when a sample is empty and ErrSamplesEqual exactly
// when all pooled values are equal ... swapping the samples turns U into N1*N2-U, exchanges the LocationLess and
// LocationGreater p-values and preserves the LocationDiffers p-value. Above the exact-method limits P equals the normal
// approximation ..."
//
//vx:mode ORD
//vx:solver z3
//vx:maxsteps 400000000
//vx:maxdec 100000
//vx:bound n1, n2 >= 0 with n1+n2 <= 4 (quick) / <= 6 (thorough); values any finite floats in any order; both limit variables symbolic in [0,60] so the exact and the approximate method run on the same data
//vx:outside "several hundred values"; the quality of the normal approximation
//vx:assume sort.Float64s is replaced by its contract: an ascending permutation written in place (NaN-free input)
func VxC03_Laws() {
	tot := vx.Choose("N", 1, 4+2*vx.Tier())
	n1 := vx.Choose("n1", 0, tot)
	n2 := tot - n1
	alt := LocationHypothesis(vx.Choose("alt", -1, 1))
	x1, x2 := vx.Floats("a", n1), vx.Floats("b", n2)
	L1, L2 := vx.Int("ExactLimit"), vx.Int("TiesExactLimit")
	vx.Assume(vx.And(L1 >= 0, L1 <= 60))
	vx.Assume(vx.And(L2 >= 0, L2 <= 60))
	MannWhitneyExactLimit, MannWhitneyTiesExactLimit = L1, L2
	vx.Freeze(x1, x2)
	res, err := MannWhitneyUTest(x1, x2, alt)
	vx.Thaw()
	if n1 == 0 || n2 == 0 {
		vx.Cover("empty")
		vx.Assert(err == ErrSampleSize && res == nil, "ErrSampleSize exactly when a sample is empty")
		return
	}
	r := vxRank(x1, x2)
	if r.allEqual {
		vx.Cover("all-equal")
		vx.Assert(err == ErrSamplesEqual && res == nil, "ErrSamplesEqual exactly when all pooled values are equal (both methods)")
		return
	}
	vx.Assert(err == nil && res != nil, "no error for non-empty samples that are not all equal")
	if err != nil {
		return
	}
	vx.Assert(res.N1 == n1 && res.N2 == n2, "N1, N2 reported")
	vx.Assert(res.U*2 == float64(r.twoUPair), "U is the pair count (both methods)")
	exact := (!r.hasTies && n1 <= L1 && n2 <= L1) || (r.hasTies && n1 <= L2 && n2 <= L2)
	twoSidedTies := alt == LocationDiffers && r.hasTies && exact
	vx.AssertKF("kfC01TwoSidedExactTies", twoSidedTies, res.P >= 0 && res.P <= 1, "0 <= P <= 1")
	if exact {
		vx.Cover("exact-method")
		le, ge, total := r.tails(r.twoUPair)
		var want float64
		switch alt {
		case LocationLess:
			want = float64(le) / float64(total)
		case LocationGreater:
			want = float64(ge) / float64(total)
		default:
			want = math.Min(1, 2*math.Min(float64(le), float64(ge))/float64(total))
		}
		vx.AssertKF("kfC01TwoSidedExactTies", twoSidedTies, vx.Close(res.P, want, 1e-12, 1e-12), "at or below the limits P is the exact permutation tail")
	} else {
		vx.Cover("approximate-method")
		vx.Assert(vx.Close(res.P, vxApproxP(r, r.twoUPair, alt), 1e-12, 1e-12), "above the limits P is the stated normal approximation")
	}
	// swap law
	res2, err2 := MannWhitneyUTest(x2, x1, -alt)
	vx.Assert(err2 == nil && res2 != nil, "swapped call succeeds")
	if err2 != nil {
		return
	}
	vx.Assert(res2.U == float64(n1*n2)-res.U, "swapping the samples turns U into N1*N2-U")
	vx.AssertKF("kfC01TwoSidedExactTies", twoSidedTies, vx.Close(res2.P, res.P, 1e-12, 1e-12), "swapping exchanges the one-sided p-values and preserves the two-sided one")
}

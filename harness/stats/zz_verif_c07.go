//go:build verif

package stats

import (
	"math"
	"math/rand"

	"github.com/aclements/go-moremath/internal/vx"
)

// vxStep is a user-defined distribution: a step-function CDF with jumps at xs[i] up to level ps[i].
type vxStep struct {
	xs, ps []float64
	lb, ub float64
}

func (d vxStep) CDF(x float64) float64 {
	p := 0.0
	for i, xi := range d.xs {
		if xi <= x {
			p = d.ps[i]
		}
	}
	return p
}
func (d vxStep) Bounds() (float64, float64) { return d.lb, d.ub }

// vxOwn has its own quantile and sampling methods.
type vxOwn struct{ vxStep }

func (d vxOwn) InvCDF(y float64) float64  { return 3*y + 1 }
func (d vxOwn) Rand(r *rand.Rand) float64 { return 42 }

var vxJumpSets = [][]float64{
	{0.5},
	{-3, 2.25},
	{-1e6, -0.001, 1e6},
	{1, 1.0000000001, 7},
	{-2.5, -2.25, 0},
}

func vxStepDist() vxStep {
	xs := vxJumpSets[vx.Choose("jumps", 0, len(vxJumpSets)-1)]
	n := len(xs)
	ps := make([]float64, n)
	prev := 0.0
	for i := range ps {
		if i == n-1 {
			ps[i] = 1
		} else {
			ps[i] = vx.FloatI("level", i)
			vx.Assume(vx.And(ps[i] > prev, ps[i] < 1))
			prev = ps[i]
		}
	}
	d := vxStep{xs: xs, ps: ps}
	// Bounds: either strictly outside the jumps or on them
	if vx.Choose("tightBounds", 0, 1) == 1 {
		d.lb, d.ub = xs[0], xs[n-1]
	} else {
		d.lb, d.ub = xs[0]-1, xs[n-1]+1
	}
	return d
}

// VxC07_InvCDF: the generic quantile function on user-defined step CDFs (discrete distributions).
// C07: "the function returned by InvCDF maps each y in (0,1) to the smallest x with CDF(x)>=y (to within 1e-9 relative),
// is non-decreasing in y, returns NaN outside [0,1], and at y=0 (y=1) returns the lower (upper) end point given by Bounds
// when the CDF is exactly 0 (1) there and -inf (+inf) otherwise. For distributions that provide their own quantile
// method it returns exactly that method."
//
//vx:mode FP
//vx:solver cvc5
//vx:maxsteps 200000000
//vx:maxdec 100000
//vx:bound step CDFs with 1..3 jumps at the listed concrete locations (within +-1e6, one pair 1e-10 apart), jump levels symbolic in (0,1), Bounds on or outside the jumps; y1 <= y2 any float64 (NaN, out of range, 0, 1, exact jump levels included); the bisection runs to completion (concrete abscissae)
//vx:outside continuous and mixed CDFs (ramps), symbolic jump locations (each bisection step would fork), built-in distributions' parameter ranges, termination in general
func VxC07_InvCDF() {
	d := vxStepDist()
	inv := InvCDF(d)
	y, y2 := vx.Float("y"), vx.Float("y2")
	vx.Assume(!math.IsNaN(y)) // the statement's domain is real y
	if !vx.Engine() {
		// native replay: the quantile function is a function - many earlier calls do not change its answers
		first := inv(y)
		for i := 0; i < 3000; i++ {
			inv(0.5)
			inv(y2)
		}
		again := inv(y)
		vx.Assert(vx.SameBits(first, again) || (math.IsNaN(first) && math.IsNaN(again)), "the returned quantile function keeps no state between calls")
	}
	vx.Epoch()
	x := inv(y)
	vx.Assert(vx.NoSharedWrites(), "the returned quantile function keeps no state between calls")
	n := len(d.xs)
	switch {
	case math.IsNaN(y) || y < 0 || y > 1:
		vx.Cover("outside")
		if !math.IsNaN(y) {
			vx.Assert(math.IsNaN(x), "NaN outside [0,1]")
		}
		return
	case y == 0:
		vx.Cover("zero")
		if d.lb < d.xs[0] {
			vx.Assert(x == d.lb, "y=0: the lower bound when the CDF is 0 there")
		} else {
			vx.Assert(math.IsInf(x, -1), "y=0: -Inf when the CDF is positive at the lower bound")
		}
		return
	case y == 1:
		vx.Cover("one")
		if d.ub >= d.xs[n-1] {
			vx.Assert(x == d.ub, "y=1: the upper bound when the CDF is 1 there")
		} else {
			vx.Assert(math.IsInf(x, 1), "y=1: +Inf when the CDF is below 1 at the upper bound")
		}
		return
	}
	vx.Cover("interior")
	// the smallest x with CDF(x) >= y is the first jump whose level reaches y
	want := d.xs[n-1]
	for i := n - 1; i >= 0; i-- {
		if d.ps[i] >= y {
			want = d.xs[i]
		}
	}
	vx.Assert(vx.IsConcrete(x), "the quantile depends on y only through the jump it selects")
	vx.Assert(x >= want && x-want <= 1e-9*math.Max(1, math.Abs(want)), "InvCDF(y) is the smallest x with CDF(x) >= y (1e-9 relative)")
	vx.Assert(d.CDF(x) >= y, "CDF(InvCDF(y)) >= y")
	if y2 >= y && y2 < 1 {
		x2 := inv(y2)
		vx.Assert(x2 >= x, "InvCDF is non-decreasing in y")
	}
}

// VxC07_Dispatch: distributions with their own quantile / sampling methods get exactly those.
//
//vx:mode FP
//vx:solver cvc5
//vx:bound any float64 y
func VxC07_Dispatch() {
	d := vxOwn{vxStep{xs: []float64{0}, ps: []float64{1}, lb: -1, ub: 1}}
	y := vx.Float("y")
	vx.Assert(vx.SameBits(InvCDF(d)(y), d.InvCDF(y)), "InvCDF returns the distribution's own quantile method")
	vx.Assert(Rand(d)(nil) == 42, "Rand returns the distribution's own sampling method")
	n := NormalDist{1, 2}
	vx.Assert(vx.SameBits(InvCDF(n)(y), n.InvCDF(y)) || (math.IsNaN(InvCDF(n)(y)) && math.IsNaN(n.InvCDF(y))), "NormalDist uses its own InvCDF")
}

// vxScript is a rand.Source whose Float64 draws are the scripted values (native replay only).
type vxScript struct {
	vals []float64
	used int
}

func (s *vxScript) Int63() int64 {
	v := 0.5
	if s.used < len(s.vals) {
		v = s.vals[s.used]
	}
	s.used++
	return int64(v * (1 << 63)) // (*rand.Rand).Float64 is float64(Int63()) / 2^63
}
func (s *vxScript) Seed(int64) {}

// VxC07_Rand: Rand(dist) is a deterministic function of the random source: the quantile of the
// first non-zero draw; zero draws are skipped.
// C07: "Rand(dist) yields draws that are a deterministic function of the supplied random source".
//
//vx:mode FP
//vx:solver cvc5
//vx:maxsteps 200000000
//vx:maxdec 100000
//vx:bound step CDFs as above; the source's draws are arbitrary values in [0,1) (up to 3 draws, zeros skipped)
//vx:outside the Kolmogorov-Smirnov clause (statistical); the global source (r == nil)
func VxC07_Rand() {
	d := vxStepDist()
	if !vx.Engine() {
		// native replay: same seed, same draws; and a scripted source whose first draw is exactly 0:
		// the re-draw must come from the same source
		a := Rand(d)(rand.New(rand.NewSource(7)))
		b := Rand(d)(rand.New(rand.NewSource(7)))
		src := &vxScript{vals: []float64{0, 0.5, 0.25}}
		c := Rand(d)(rand.New(src))
		ok := a == b && src.used == 2 && c == InvCDF(d)(0.5)
		vx.Assert(ok, "Rand is the quantile of the first non-zero draw")
		vx.Assert(ok, "Rand draws only from the supplied source")
		return
	}
	r := rand.New(rand.NewSource(1)) // every r.Float64() is an arbitrary draw for the engine
	vx.Epoch()
	got := Rand(d)(r)
	vx.Assert(vx.NoGlobalWrites(), "Rand draws only from the supplied source")
	// the engine names the draws rand.Float64#k; recover the first non-zero one
	y := vx.Float("rand.Float64#0")
	for k := 1; y == 0 && k < 3; k++ {
		y = vx.Float(vxName("rand.Float64#", k))
	}
	vx.Assume(y != 0)
	vx.Assert(vx.SameBits(got, InvCDF(d)(y)), "Rand is the quantile of the first non-zero draw")
}

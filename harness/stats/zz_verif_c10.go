//go:build verif

package stats

import (
	"math"
	"sort"

	"github.com/aclements/go-moremath/internal/vx"
)

// vxSample builds an unweighted sample of n symbolic finite values, optionally ascending and flagged Sorted.
func vxSampleFP(n int) (Sample, []float64) {
	xs := vx.Floats("x", n)
	for _, x := range xs {
		vx.Assume(vx.And(x >= -1e100, x <= 1e100))
	}
	s := Sample{Xs: xs}
	if vx.Choose("sortedFlag", 0, 1) == 1 {
		for i := 1; i < n; i++ {
			vx.Assume(xs[i-1] <= xs[i])
		}
		s.Sorted = true
	}
	return s, xs
}

// VxC10_QuantileR8: for 0<q<1 the result is bit-identical to the Hyndman-Fan type 8 formula
// evaluated on the ascending permutation of the (unsorted, tie-containing) input; the sample is
// not modified; the Sorted flag makes no difference.
// C10: "with h=(n+1/3)q+1/3 it is x[floor(h)]+(h-floor(h))(x[floor(h)+1]-x[floor(h)]) on 1-based order statistics,
// clamped to the smallest and largest value ... does not depend on input order or on the Sorted flag, leaves the sample unmodified".
//
//vx:mode FP
//vx:solver cvc5
//vx:timeout 60000
//vx:bound n = 1..4 (quick) / 1..6 (thorough); data any finite float64 (|x| <= 1e100) in any order with ties; q any float64 in (0,1), incl. the break points where h is an integer
//vx:outside n up to 200; "lies between min and max" for interior q (one-mul FP query, unknown at 120 s: DESIGN 3)
func VxC10_QuantileR8() {
	n := vx.Choose("n", 1, 4+2*vx.Tier())
	s, xs := vxSampleFP(n)
	q := vx.Float("q")
	vx.Assume(vx.And(q > 0, q < 1))
	// reference: ascending copy (sorted exactly when it is not already ascending), then the statement's formula
	c := append([]float64(nil), xs...)
	if !s.Sorted && !sort.Float64sAreSorted(c) {
		sort.Float64s(c)
	}
	N := float64(n)
	h := 1/3.0 + q*(N+1/3.0)
	fl := math.Trunc(h) // h > 0: floor
	k := vx.Concretize(int(fl))
	var want float64
	switch {
	case k <= 0:
		vx.Cover("clamp-low")
		want = c[0]
	case k >= n:
		vx.Cover("clamp-high")
		want = c[n-1]
	default:
		vx.Cover("opt:interior")
		want = c[k-1] + (h-fl)*(c[k]-c[k-1])
	}
	vx.Freeze(xs)
	got := s.Quantile(q)
	vx.Thaw()
	vx.Assert(vx.SameBits(got, want) || got == want, "Quantile(q) is the Hyndman-Fan type 8 estimate of the sorted data")
}

// VxC10_QuantileEnds: NaN for an empty sample; the minimum for q <= 0, the maximum for q >= 1.
//
//vx:mode ORD
//vx:solver z3
//vx:bound n = 0..4 (quick) / 0..6 (thorough); data any finite floats in any order; q <= 0 or q >= 1 (any such real)
func VxC10_QuantileEnds() {
	n := vx.Choose("n", 0, 4+2*vx.Tier())
	xs := vx.Floats("x", n)
	q := vx.Float("q")
	s := Sample{Xs: xs}
	if n > 0 {
		vx.Assume(vx.Or(q <= 0, q >= 1))
	}
	vx.Freeze(xs)
	got := s.Quantile(q)
	vx.Thaw()
	if n == 0 {
		vx.Assert(math.IsNaN(got), "Quantile of an empty sample is NaN")
		return
	}
	att := false
	for _, x := range xs {
		att = vx.Or(att, x == got)
		if q <= 0 {
			vx.Assert(got <= x, "q <= 0 returns the minimum")
		} else {
			vx.Assert(got >= x, "q >= 1 returns the maximum")
		}
	}
	vx.Assert(att, "the end quantiles are sample values")
}

// VxC10_IQR: IQR = Quantile(0.75) - Quantile(0.25), sample unmodified.
//
//vx:mode FP
//vx:solver cvc5
//vx:bound n = 1..4 (quick) / 1..6 (thorough); data any finite float64 in any order
func VxC10_IQR() {
	n := vx.Choose("n", 1, 4+2*vx.Tier())
	s, xs := vxSampleFP(n)
	vx.Freeze(xs)
	iqr := s.IQR()
	a, b := s.Quantile(0.75), s.Quantile(0.25)
	vx.Thaw()
	vx.Assert(vx.SameBits(iqr, a-b) || iqr == a-b, "IQR = Quantile(0.75) - Quantile(0.25)")
}

// VxC10_Weighted: the first value in ascending order at which the cumulative weight exceeds q
// times the total (exact-real reading of the running subtraction).
//
//vx:mode R
//vx:solver z3
//vx:maxdec 20000
//vx:bound n = 1..3 (quick) / 1..4 (thorough); values any reals in any order, weights any positive reals, 0 < q < 1
func VxC10_Weighted() {
	n := vx.Choose("n", 1, 3+vx.Tier())
	xs, ws := vx.Floats("x", n), vx.Floats("w", n)
	tot := 0.0
	for i := range ws {
		vx.Assume(ws[i] > 0)
		tot += ws[i]
	}
	q := vx.Float("q")
	vx.Assume(vx.And(q > 0, q < 1))
	s := Sample{Xs: xs, Weights: ws}
	vx.Freeze(xs, ws)
	got := s.Quantile(q)
	vx.Thaw()
	below, upto := 0.0, 0.0
	att := false
	for i, x := range xs {
		below += vx.Ite(x < got, ws[i], 0)
		upto += vx.Ite(x <= got, ws[i], 0)
		att = vx.Or(att, x == got)
	}
	vx.Assert(att, "the weighted quantile is a sample value")
	vx.Assert(vx.Leq(below, q*tot, 1e-9, 1e-12), "the weight strictly below the result does not exceed q*total")
	// "exceeds" is strict: exact in the real reading; natively the running subtraction may differ from
	// this sum by rounding, but an exactly equal pair is still a failure (so a counterexample replays)
	vx.Assert(q*tot < upto || (!vx.Real() && q*tot != upto && vx.Close(q*tot, upto, 1e-9, 1e-12)), "the weight up to the result exceeds q*total")
}

// VxC10_WeightedEnds: for q <= 0 and q >= 1 a weighted sample returns exactly its smallest and
// largest value, bit-precisely (weights whose sum absorbs the smaller ones included).
// C10: "clamped to the smallest and largest value, and returns them for q<=0 and q>=1".
//
//vx:mode FP
//vx:solver cvc5
//vx:timeout 60000
//vx:bound n = 1..3 values in any order (|x| <= 1e100), weights any positive finite float64 (including ones that vanish next to the total); q in {-Inf, -1, -0, 0, 1, 1.5, +Inf}
//vx:outside other q <= 0 or q >= 1 (the early return does not look at q further); zero weights (Bounds ignores such values)
func VxC10_WeightedEnds() {
	n := vx.Choose("n", 1, 3)
	xs, ws := vx.Floats("x", n), vx.Floats("w", n)
	for i := range xs {
		vx.Assume(vx.And(xs[i] >= -1e100, xs[i] <= 1e100))
		vx.Assume(vx.And(ws[i] > 0, ws[i] <= 1e300))
	}
	q := []float64{math.Inf(-1), -1, math.Copysign(0, -1), 0, 1, 1.5, math.Inf(1)}[vx.Choose("q", 0, 6)]
	s := Sample{Xs: xs, Weights: ws}
	vx.Freeze(xs, ws)
	got := s.Quantile(q)
	vx.Thaw()
	att := false
	for _, x := range xs {
		att = vx.Or(att, x == got)
		if q <= 0 {
			vx.Assert(got <= x, "q <= 0 returns the minimum of a weighted sample")
		} else {
			vx.Assert(got >= x, "q >= 1 returns the maximum of a weighted sample")
		}
	}
	vx.Assert(att, "the end quantiles of a weighted sample are sample values")
}

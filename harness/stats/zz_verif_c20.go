//go:build verif

package stats

import (
	"github.com/aclements/go-moremath/vec"

	"sync"

	"math"

	"github.com/aclements/go-moremath/internal/vx"
)

// vxTwice runs f, then some unrelated library calls, then f again, and requires bit-identical
// results and no store to a package-level variable by library code.
func vxSameResult(a, b float64) bool {
	return vx.SameBits(a, b) || (math.IsNaN(a) && math.IsNaN(b))
}

func vxUnrelated() {
	// unrelated intervening calls that exercise other parts of the package
	_ = Sample{Xs: []float64{3, 1, 2}}.Copy().Sort()
	_, _ = MannWhitneyUTest([]float64{1, 2}, []float64{3, 4, 5}, LocationLess)
	_ = UDist{N1: 2, N2: 2}.CDF(1)
	_ = QuantileCI(5, 0.5, 0.9)
	var s StreamStats
	s.Add(1)
}

// VxC20_Sample: the Sample queries leave the sample untouched (unsorted data with ties, weights),
// are deterministic across intervening calls, and write no package-level state.
// C20: "No function of the library modifies slices, Samples or graphs passed to it ... Every function is deterministic:
// repeated calls with equal arguments return bit-identical results, whatever calls were made before."
//
//vx:mode R
//vx:solver z3
//vx:timeout 60000
//vx:maxdec 100000
//vx:bound n = 1..3 values (any reals, any order, ties allowed), optional weights; q symbolic in (0,1); every query method of Sample
//vx:outside schedules: no interleaving is explored; race freedom is argued only through write confinement (every store by library code goes to memory allocated during the call; inputs are frozen and package-level variables are monitored)
func VxC20_Sample() {
	n := vx.Choose("n", 1, 3)
	xs := vx.Floats("x", n)
	for _, x := range xs {
		vx.Assume(vx.And(x >= -1e100, x <= 1e100))
	}
	var ws []float64
	if vx.Choose("weighted", 0, 1) == 1 {
		ws = vx.Floats("w", n)
		for _, w := range ws {
			vx.Assume(vx.And(w > 0, w <= 1e100))
		}
	}
	q := vx.Float("q")
	vx.Assume(vx.And(q > 0, q < 1))
	s := Sample{Xs: xs, Weights: ws}
	vx.Epoch()
	vx.Freeze(xs, ws)
	run := func() [8]float64 {
		var r [8]float64
		r[0], r[1] = s.Bounds()
		r[2] = s.Sum()
		r[3] = s.Weight()
		r[4] = s.Mean()
		r[5] = s.Quantile(q)
		r[6] = s.IQR()
		c := s.Copy()
		r[7] = float64(len(c.Xs))
		return r
	}
	a := run()
	vx.Thaw()
	noGlobals := vx.NoGlobalWrites()
	vxUnrelated()
	vx.Freeze(xs, ws)
	b := run()
	vx.Thaw()
	for i := range a {
		vx.Assert(vxSameResult(a[i], b[i]), "repeated Sample queries return bit-identical results after unrelated calls")
	}
	// the caller refills the same backing array: later queries must see the new contents, exactly
	// as a fresh Sample holding the same values does (no result may depend on earlier calls)
	if ws == nil {
		ys := vx.Floats("y", n)
		copy(xs, ys)
		fresh := Sample{Xs: append([]float64(nil), ys...)}
		vx.Assert(vxSameResult(s.Quantile(q), fresh.Quantile(q)) && vxSameResult(s.IQR(), fresh.IQR()), "a query depends only on the current contents of the sample, not on earlier calls")
	}
	// (checked last: a violation of it cannot be observed natively, the behavioural assertions above can)
	vx.Assert(noGlobals, "no package-level state is written by the Sample queries")
}

// VxC20_Tests: MannWhitneyUTest, UDist, QuantileCI/SampleCI and KDE leave their inputs alone and are deterministic.
//
//vx:mode R
//vx:solver z3
//vx:maxsteps 400000000
//vx:maxdec 100000
//vx:bound two samples with n1+n2 <= 4 (any order, ties); UDist tie vector {2,1,1}; SampleCI on 3 values
func VxC20_Tests() {
	n1 := vx.Choose("n1", 1, 3)
	n2 := vx.Choose("n2", 1, 4-n1)
	x1, x2 := vx.Floats("a", n1), vx.Floats("b", n2)
	alt := LocationHypothesis(vx.Choose("alt", -1, 1))
	vx.Epoch()
	vx.Freeze(x1, x2)
	r1, e1 := MannWhitneyUTest(x1, x2, alt)
	vx.Thaw()
	vx.Assert(vx.NoGlobalWrites(), "MannWhitneyUTest writes no package-level state")
	vxUnrelated()
	vx.Freeze(x1, x2)
	r2, e2 := MannWhitneyUTest(x1, x2, alt)
	vx.Thaw()
	vx.Assert((e1 == nil) == (e2 == nil) && e1 == e2, "same error on the repeated call")
	if e1 == nil && e2 == nil {
		vx.Assert(vxSameResult(r1.U, r2.U) && vxSameResult(r1.P, r2.P) && r1.N1 == r2.N1 && r1.N2 == r2.N2, "MannWhitneyUTest is deterministic across intervening calls")
	}
	t := []int{2, 1, 1}
	vx.Freeze(t)
	d := UDist{N1: 2, N2: 2, T: t}
	c1, p1 := d.CDF(2.5), d.PMF(2.5)
	vxUnrelated()
	c2, p2 := d.CDF(2.5), d.PMF(2.5)
	vx.Thaw()
	vx.Assert(vxSameResult(c1, c2) && vxSameResult(p1, p2), "UDist is deterministic and leaves its tie vector alone")
	ys := vx.Floats("y", 3)
	ci := QuantileCI(3, 0.5, 0.8)
	vx.Freeze(ys)
	q1, l1, h1 := ci.SampleCI(Sample{Xs: ys})
	vxUnrelated()
	q2, l2, h2 := ci.SampleCI(Sample{Xs: ys})
	vx.Thaw()
	vx.Assert(vxSameResult(q1, q2) && vxSameResult(l1, l2) && vxSameResult(h1, h2), "SampleCI is deterministic and leaves the sample alone")
}

// VxC20_KDE: KDE queries leave the sample alone; the only write to the receiver is the lazily filled Bandwidth.
//
//vx:mode R
//vx:solver z3
//vx:maxdec 100000
//vx:bound 2 sample values with optional weights, Epanechnikov kernel, positive bandwidth; any real x
func VxC20_KDE() {
	kde, xs, ws, _ := vxKDE(2, EpanechnikovKernel)
	x := vx.Float("x")
	vx.Epoch()
	vx.Freeze(xs, ws)
	p1, c1 := kde.PDF(x), kde.CDF(x)
	vx.Thaw()
	vx.Assert(vx.NoGlobalWrites(), "KDE writes no package-level state")
	vxUnrelated()
	vx.Freeze(xs, ws)
	p2, c2 := kde.PDF(x), kde.CDF(x)
	vx.Thaw()
	vx.Assert(vx.Close(p1, p2, 0, 0) && vx.Close(c1, c2, 0, 0), "KDE.PDF/CDF are deterministic across intervening calls")
}

// VxC20_Vectorize: the function returned by vec.Vectorize (and vec.Map) keeps no state: a call
// stores into no memory that existed before it, results of separate calls share no storage, and the
// argument is left alone.
// C20: "Calls made concurrently from several goroutines on shared read-only inputs return the same results as sequential calls and are free of data races."
//
//vx:mode R
//vx:solver z3
//vx:bound vectors of 1..3 values; f(x) = 2x+1
func VxC20_Vectorize() {
	f := func(x float64) float64 { return 2*x + 1 }
	g := vec.Vectorize(f)
	if !vx.Engine() {
		// native confirmation: 8 goroutines call the same g on their own inputs
		var wg sync.WaitGroup
		bad := make([]bool, 8)
		for k := 0; k < 8; k++ {
			wg.Add(1)
			go func(k int) {
				defer wg.Done()
				in := []float64{float64(k), float64(k) + 0.5, float64(k) * 3}
				for r := 0; r < 20000 && !bad[k]; r++ {
					out := g(in)
					for i := range in {
						if len(out) != len(in) || out[i] != 2*in[i]+1 {
							bad[k] = true
						}
					}
				}
			}(k)
		}
		wg.Wait()
		ok := true
		for _, b := range bad {
			ok = ok && !b
		}
		vx.Assert(ok, "a call of the vectorized function stores into no memory shared between calls (race-free)")
	}
	m := vx.Choose("m", 1, 3)
	xs, ys := vx.Floats("x", m), vx.Floats("y", m)
	vx.Freeze(xs, ys)
	vx.Epoch()
	r1 := g(xs)
	shared := vx.NoSharedWrites()
	keep := append([]float64(nil), r1...)
	r2 := g(ys)
	r3 := vec.Map(f, xs)
	vx.Thaw()
	for i := range xs {
		vx.Assert(vx.Close(r1[i], keep[i], 0, 0) && r1[i] == 2*xs[i]+1 && r2[i] == 2*ys[i]+1 && r3[i] == r1[i], "results of separate calls share no storage and apply f elementwise")
	}
	vx.Assert(shared, "a call of the vectorized function stores into no memory shared between calls (race-free)")
}

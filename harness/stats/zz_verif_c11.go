//go:build verif

package stats

import (
	"math"

	"github.com/aclements/go-moremath/internal/vx"
)

// vxGridQ picks q from the statement's grid (steps of 1/8 quick, 1/40 thorough) plus values near 0 and 1.
func vxGridQ() float64 {
	steps := 8
	if vx.Tier() == 1 {
		steps = 16
	}
	k := vx.Choose("qk", 0, steps+2)
	switch {
	case k == steps+1:
		return 1e-9
	case k == steps+2:
		return 1 - 1e-9
	}
	return float64(k) / float64(steps)
}

func vxCheckExact(n int, q, c float64, res QuantileCIResult) {
	samp := BinomialDist{N: n, P: q}
	vx.Assert(res.N == n && res.Quantile == q, "N and Quantile are echoed")
	lo, hi := res.LoOrder, res.HiOrder
	vx.Assert(lo >= 0 && lo < hi && hi <= n+1, "0 <= LoOrder < HiOrder <= n+1")
	if !(lo >= 0 && lo < hi && hi <= n+1) {
		return
	}
	// the buckets LoOrder..HiOrder-1, summed in a different order (largest index first)
	mass := 0.0
	for k := hi - 1; k >= lo; k-- {
		mass += samp.PMF(float64(k))
	}
	vx.Assert(vx.Close(res.Confidence, mass, 1e-12, 1e-12), "Confidence is the Binomial(n,q) mass of the buckets LoOrder..HiOrder-1")
	vx.Assert(vx.Leq(c, res.Confidence, 0, 1e-12), "Confidence is at least c")
	mode := int(math.Ceil(float64(n+1)*q) - 1)
	if q == 0 {
		mode = 0
	}
	vx.Assert(lo <= mode && mode < hi, "the interval contains the binomial mode")
	if hi-lo > 1 {
		pl, ph := samp.PMF(float64(lo)), samp.PMF(float64(hi-1))
		vx.Assert(res.Confidence-pl < c || res.Confidence-ph < c || vx.Close(res.Confidence-math.Min(pl, ph), c, 0, 1e-12), "at least one end bucket is needed to reach c")
	}
	if res.Ambiguous {
		vx.Cover("opt:ambiguous")
		vx.Assert(vx.Close(samp.PMF(float64(hi)), samp.PMF(float64(lo)), 1e-12, 1e-15), "Ambiguous: the interval shifted up by one has the same Confidence")
	}
}

// VxC11_Exact: the exact (n <= 30) branch for every confidence level: the greedy accumulation
// stops at one of at most n+1 points, each an interval of c; all are explored.
// C11: "For n<=30 the reported Confidence equals the exact Binomial(n,q) probability of the buckets
// LoOrder..HiOrder-1, is at least c, the interval contains the binomial mode, at least one of its end buckets is needed
// to reach c, intervals are nested as c grows, and when Ambiguous is set the interval shifted up by one has the same Confidence".
//
//vx:timeout 60000
//vx:mode FP
//vx:solver cvc5
//vx:maxdec 100000
//vx:bound n = 1..8 (quick) / 1..18 (thorough); q on the grid k/8 (quick) / k/16 (thorough) plus 1e-9 and 1-1e-9; c any float64 below 1 (every stopping point of the accumulation), two levels c1 <= c2 for nesting (n <= 8 quick / n <= 12 thorough)
//vx:outside q off the grid; n = 19..30 of the exact branch (the thorough run with n <= 30 and the k/40 grid exceeded its 90-minute budget with solver time-outs: reduced bound); tolerance 1e-12 on sums of probabilities
func VxC11_Exact() {
	n := vx.Choose("n", 1, 8+10*vx.Tier())
	q := vxGridQ()
	c := vx.Float("c")
	vx.Assume(c < 1)
	res := QuantileCI(n, q, c)
	vxCheckExact(n, q, c, res)
	// c >= 1: the whole range with Confidence 1 (every level at or above 1)
	c1 := vx.Float("cfull")
	vx.Assume(c1 >= 1)
	full := QuantileCI(n, q, c1)
	vx.Assert(full.LoOrder == 0 && full.HiOrder == n+1 && full.Confidence == 1 && !full.Ambiguous && full.N == n && full.Quantile == q, "c >= 1 gives the whole range with Confidence 1")
	if n <= 8+4*vx.Tier() {
		c2 := vx.Float("c2")
		vx.Assume(vx.And(c <= c2, c2 < 1))
		res2 := QuantileCI(n, q, c2)
		vx.Assert(res2.LoOrder <= res.LoOrder && res.HiOrder <= res2.HiOrder, "intervals are nested as c grows")
	}
}

// VxC11_Full: c >= 1 gives the whole range with Confidence 1, for any n and q.
//
//vx:mode FP
//vx:solver cvc5
//vx:budget 90
//vx:bound n any int in [1, 2^31); q any float64; c any float64 >= 1
func VxC11_Full() {
	n := vx.Int("n")
	vx.Assume(vx.And(n >= 1, n < 1<<31))
	q, c := vx.Float("q"), vx.Float("c")
	vx.Assume(c >= 1)
	res := QuantileCI(n, q, c)
	vx.Assert(res.N == n && vx.SameBits(res.Quantile, q), "N and Quantile are echoed")
	vx.Assert(res.LoOrder == 0 && res.HiOrder == n+1 && res.Confidence == 1 && !res.Ambiguous, "c >= 1 gives the whole range with Confidence 1")
}

// --- approximate branch: the normal quantile and CDF are abstracted by their contracts

var vxCDFArgs, vxCDFVals []float64

// vxNormCDF: an arbitrary non-decreasing function into [0,1] (instantiated pairwise on the arguments used).
func vxNormCDF(n NormalDist, x float64) float64 {
	v := vx.UFloat("normcdf", x)
	vx.Assume(vx.And(v >= 0, v <= 1))
	for i, a := range vxCDFArgs {
		vx.Assume(vx.And(vx.Implies(a <= x, vxCDFVals[i] <= v), vx.Implies(x <= a, v <= vxCDFVals[i])))
	}
	vxCDFArgs = append(vxCDFArgs, x)
	vxCDFVals = append(vxCDFVals, v)
	return v
}

// vxNormInvCDF: an arbitrary quantile function with InvCDF(1/2) = Mu, below Mu for p < 1/2 and above for p > 1/2.
func vxNormInvCDF(n NormalDist, p float64) float64 {
	if p == 0.5 {
		return n.Mu
	}
	v := vx.UFloat("norminv", p)
	vx.Assume(vx.And(v >= n.Mu-40*n.Sigma, v <= n.Mu+40*n.Sigma))
	vx.Assume(vx.And(vx.Implies(p < 0.5, v <= n.Mu), vx.Implies(p > 0.5, v >= n.Mu)))
	if n.Sigma > 0 {
		vx.Assume(v != n.Mu) // strictly monotone in p when the distribution is not degenerate
	}
	return v
}

// VxC11_Approx: the normal-approximation branch (n > 30): a valid, non-empty order interval and
// outward rounding of the band to half-integers, for any confidence level below 1 (also <= 0).
// C11: "for n>30 the band from LoOrder-0.5 to HiOrder-0.5 is the central interval ... rounded outward to half-integers
// and clamped to [0,n+1], except that its upper end may be one bucket lower with Ambiguous set".
//
//vx:mode R
//vx:solver z3
//vx:timeout 60000
//vx:stub stats.NormalDist.InvCDF = vxNormInvCDF
//vx:stub stats.NormalDist.CDF = vxNormCDF
//vx:bound n in {31, 32, 50, 100, 2000}; q on the grid k/8 (quick) / k/16 (thorough); c any float64 below 1 including c <= 0; NormalDist.InvCDF/CDF replaced by contracts (quantile: InvCDF(1/2)=Mu, strict sign of InvCDF(p)-Mu for Sigma>0; CDF: non-decreasing into [0,1])
//vx:assume the abstracted InvCDF(alpha) lies within 40 sigma of the mean
//vx:outside that the reported Confidence is the normal mass of the band and is >= c (depends on CDF(InvCDF(alpha)), transcendental)
func VxC11_Approx() {
	n := []int{31, 32, 50, 100, 2000}[vx.Choose("nsel", 0, 1+3*vx.Tier())]
	q := vxGridQ()
	if vx.Tier() == 0 {
		q = float64(vx.Choose("q4", 0, 4)) / 4
	}
	c := vx.Float("c")
	vx.Assume(c < 1)
	res := QuantileCI(n, q, c)
	vx.Assert(res.N == n && res.Quantile == q, "N and Quantile are echoed")
	lo, hi := res.LoOrder, res.HiOrder
	vx.Assert(lo >= 0 && lo < hi && hi <= n+1, "0 <= LoOrder < HiOrder <= n+1")
	if q > 0 && q < 1 && c > 0 {
		// the band the code rounded: l1 = InvCDF(alpha), r1 = 2Mu - l1
		norm := BinomialDist{N: n, P: q}.NormalApprox()
		alpha := (1 - c) / 2
		l1 := norm.InvCDF(alpha) // the same (abstracted) quantile the code used
		r1 := 2*norm.Mu - l1
		if l1 >= -0.5 {
			vx.Cover("opt:lower-unclamped")
			vx.Assert(float64(lo)-0.5 <= l1 && l1 < float64(lo)+0.5, "the lower end is l1 rounded outward to a half-integer")
		}
		if hi < n+1 && !res.Ambiguous {
			vx.Cover("opt:upper-unclamped")
			vx.Assert(float64(hi)-1.5 < r1 && r1 <= float64(hi)-0.5, "the upper end is r1 rounded outward to a half-integer")
		}
		// Confidence is the normal mass of the band *before* clamping (1 when the band covers everything)
		lu := int(math.Floor(math.Floor(l1-0.5)+0.5)) + 1
		ru := int(math.Floor(math.Ceil(r1-0.5)+0.5)) + 1
		if ru <= lu {
			ru = lu + 1
		}
		if res.Ambiguous {
			ru--
		}
		if !(lu <= 0 && ru >= n+1) {
			vx.Assert(vx.Near(res.Confidence, norm.CDF(float64(ru)-0.5)-norm.CDF(float64(lu)-0.5), 1e-9, 1e-12), "Confidence is the normal mass of the band before clamping")
		} else {
			vx.Assert(res.Confidence == 1, "Confidence is 1 when the band covers every order")
		}
	}
}

// VxC11_SampleCI: SampleCI maps the orders onto the sorted sample.
// C11: "SampleCI maps the result onto a sample of that size as (Quantile(q), x[LoOrder], x[HiOrder]) in sorted order
// with -inf/+inf for orders 0 and n+1, without modifying the sample."
//
//vx:mode ORD
//vx:solver z3
//vx:maxdec 100000
//vx:bound n = 1..4 (quick) / 1..5 (thorough); data any finite floats in any order; LoOrder < HiOrder any orders in [0, n+1]; q in {0, 1} (Quantile itself is C10's subject)
func VxC11_SampleCI() {
	n := vx.Choose("n", 1, 4+vx.Tier())
	xs := vx.Floats("x", n)
	lo := vx.Choose("lo", 0, n)
	hi := vx.Choose("hi", lo+1, n+1)
	q := float64(vx.Choose("q", 0, 1))
	ci := QuantileCIResult{Quantile: q, N: n, LoOrder: lo, HiOrder: hi}
	s := Sample{Xs: xs}
	vx.Freeze(xs)
	gq, glo, ghi := ci.SampleCI(s)
	vx.Thaw()
	vx.Assert(gq == s.Quantile(q), "the point estimate is Quantile(q)")
	rank := func(v float64) (below, upto int) {
		for _, x := range xs {
			if x < v {
				below++
			}
			if x <= v {
				upto++
			}
		}
		return
	}
	if lo == 0 {
		vx.Assert(math.IsInf(glo, -1), "order 0 is -inf")
	} else {
		b, u := rank(glo)
		vx.Assert(b < lo && lo <= u, "lo is the LoOrder-th smallest value")
	}
	if hi == n+1 {
		vx.Assert(math.IsInf(ghi, 1), "order n+1 is +inf")
	} else {
		b, u := rank(ghi)
		vx.Assert(b < hi && hi <= u, "hi is the HiOrder-th smallest value")
	}
	vx.Assert(vx.Panics(func() { ci.SampleCI(Sample{Xs: xs, Weights: xs}) }), "SampleCI panics for a weighted sample")
	vx.Assert(vx.Panics(func() { ci.SampleCI(Sample{Xs: xs[:n-1]}) }), "SampleCI panics for a sample of the wrong size")
}

//go:build verif

package stats

import (
	"math"

	"github.com/aclements/go-moremath/internal/vx"
)

// vxRanking ranks the pooled data by pairwise comparison (all outcomes are already implied by
// the path, so this does not multiply paths). twoRank[i] is twice the mid-rank of item i.
type vxRanking struct {
	n1, n2   int
	twoRank  []int
	hasTies  bool
	allEqual bool
	twoUPair int   // 2 * (#{a>b} + #{a==b}/2), the pair count of the statement
	ties     []int // tie group sizes in ascending value order
}

func vxRank(x1, x2 []float64) vxRanking {
	n1, n2 := len(x1), len(x2)
	n := n1 + n2
	v := make([]float64, 0, n)
	v = append(v, x1...)
	v = append(v, x2...)
	r := vxRanking{n1: n1, n2: n2, twoRank: make([]int, n), allEqual: true}
	less := make([]int, n)
	eq := make([]int, n)
	for i := 0; i < n; i++ {
		for j := 0; j < n; j++ {
			if v[j] < v[i] {
				less[i]++
			} else if v[j] == v[i] {
				eq[i]++
			}
		}
		r.twoRank[i] = 2*less[i] + eq[i] + 1
		if eq[i] > 1 {
			r.hasTies = true
		}
		if eq[i] != n {
			r.allEqual = false
		}
	}
	for _, a := range x1 {
		for _, b := range x2 {
			if a > b {
				r.twoUPair += 2
			} else if a == b {
				r.twoUPair++
			}
		}
	}
	// tie vector: group sizes by ascending value = by ascending 'less'
	for l := 0; l < n; {
		sz := 0
		for i := 0; i < n; i++ {
			if less[i] == l {
				sz = eq[i]
			}
		}
		if sz == 0 {
			break
		}
		r.ties = append(r.ties, sz)
		l += sz
	}
	return r
}

// vxTails counts, over all relabellings of the pooled values, the allocations with U' <= U and U' >= U.
func (r vxRanking) tails(twoU int) (le, ge, total int) {
	n := r.n1 + r.n2
	for mask := 0; mask < 1<<uint(n); mask++ {
		sz, sum := 0, 0
		for i := 0; i < n; i++ {
			if mask>>uint(i)&1 == 1 {
				sz++
				sum += r.twoRank[i]
			}
		}
		if sz != r.n1 {
			continue
		}
		total++
		tu := sum - r.n1*(r.n1+1)
		if tu <= twoU {
			le++
		}
		if tu >= twoU {
			ge++
		}
	}
	return
}

// VxC01_Exact: U is the pair count and P the exact permutation tail, for every order and tie
// pattern of the two samples (each path of the rank pass is one weak order of the pooled data).
// C01: "MannWhitneyUTest reports U equal to the number of pairs with a>b plus half the number with a=b. Its P equals
// the exact conditional probability over all C(n1+n2,n1) relabellings: Pr[U'<=U] for LocationLess, Pr[U'>=U] for
// LocationGreater, and min(1, 2*min(Pr[U'<=U], Pr[U'>=U])) for LocationDiffers."
//
//vx:mode ORD
//vx:solver z3
//vx:maxsteps 400000000
//vx:maxdec 100000
//vx:bound n1+n2 <= 5 (quick) / <= 6 (thorough), every split; values any finite floats in any order (order-only reading, exact for this comparison-only code); all three alternatives; limits at their defaults
//vx:outside sizes above the bound, in particular the stated limits 50/25 (reached only through the UDist check C02)
//vx:assume sort.Float64s is replaced by its contract: an ascending permutation written in place (NaN-free input)
func VxC01_Exact() {
	tot := vx.Choose("N", 2, 5+vx.Tier())
	n1 := vx.Choose("n1", 1, tot-1)
	n2 := tot - n1
	alt := LocationHypothesis(vx.Choose("alt", -1, 1))
	x1, x2 := vx.Floats("a", n1), vx.Floats("b", n2)
	vx.Freeze(x1, x2)
	res, err := MannWhitneyUTest(x1, x2, alt)
	vx.Thaw()
	r := vxRank(x1, x2)
	if r.allEqual {
		vx.Cover("all-equal")
		vx.Assert(err == ErrSamplesEqual && res == nil, "ErrSamplesEqual exactly when all pooled values are equal")
		return
	}
	vx.Assert(err == nil && res != nil, "no error for non-empty samples that are not all equal")
	if err != nil {
		return
	}
	vx.Assert(res.N1 == n1 && res.N2 == n2 && res.AltHypothesis == alt, "N1, N2 and the alternative are reported")
	vx.Assert(vx.IsConcrete(res.U) && vx.IsConcrete(res.P), "U and P depend only on the order pattern of the data")
	vx.Assert(res.U*2 == float64(r.twoUPair), "U is the number of pairs a>b plus half the pairs a==b")
	le, ge, total := r.tails(r.twoUPair)
	var want float64
	switch alt {
	case LocationLess:
		want = float64(le) / float64(total)
	case LocationGreater:
		want = float64(ge) / float64(total)
	default:
		want = math.Min(1, 2*math.Min(float64(le), float64(ge))/float64(total))
	}
	if r.hasTies {
		vx.Cover("ties")
	} else {
		vx.Cover("no-ties")
	}
	vx.AssertKF("kfC01TwoSidedExactTies", alt == LocationDiffers && r.hasTies,
		vx.Close(res.P, want, 1e-12, 1e-12), "P is the exact permutation tail of the stated alternative")
}

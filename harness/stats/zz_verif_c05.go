//go:build verif

package stats

import (
	"math"

	"github.com/aclements/go-moremath/internal/vx"
	"github.com/aclements/go-moremath/mathx"
)

var mathxBetaInc = mathx.BetaInc

// VxC05_Delta: DeltaDist is the unit step at T with quantile T (bit-precise, all floats).
// C05: "DeltaDist is the unit step at T with quantile T."
//
//vx:mode FP
//vx:solver cvc5
//vx:bound any float64 T (not NaN), x, y; vectors of length 0..3
func VxC05_Delta() {
	T, x, y := vx.Float("T"), vx.Float("x"), vx.Float("y")
	vx.Assume(!math.IsNaN(T))
	vx.Assume(!math.IsNaN(y))
	d := DeltaDist{T}
	c := d.CDF(x)
	vx.Assert((x >= T && c == 1) || (!(x >= T) && c == 0), "CDF is 1 at and above T and 0 below (also for NaN x)")
	p := d.PDF(x)
	vx.Assert((x == T && math.IsInf(p, 1)) || (x != T && p == 0), "PDF is +Inf exactly at T and 0 elsewhere")
	q := d.InvCDF(y)
	if y >= 0 && y <= 1 {
		vx.Assert(vx.SameBits(q, T) || q == T, "InvCDF is T on [0,1]")
	} else {
		vx.Assert(math.IsNaN(q), "InvCDF is NaN outside [0,1]")
	}
	lo, hi := d.Bounds()
	if !math.IsInf(T, 0) && math.Abs(T) < 1e15 {
		vx.Assert(lo < T && T < hi, "Bounds brackets T")
	}
	n := vx.Choose("n", 0, 3)
	xs := vx.Floats("xs", n)
	vx.Freeze(xs)
	cs, ps := d.cdfEach(xs), d.pdfEach(xs)
	vx.Thaw()
	vx.Assert(len(cs) == n && len(ps) == n, "the vectorised forms keep the length")
	for i := range xs {
		vx.Assert(vx.SameBits(cs[i], d.CDF(xs[i])) && vx.SameBits(ps[i], d.PDF(xs[i])), "cdfEach/pdfEach agree with the scalar forms elementwise")
	}
}

// VxC05_NormalEdges: NormalDist.InvCDF edge contract; Mean, Variance, Bounds.
// C05: "NormalDist.InvCDF ... -inf at 0, +inf at 1, NaN outside [0,1], and Mean, Variance, Bounds and Rand are consistent with Mu and Sigma."
//
//vx:mode FP
//vx:solver cvc5
//vx:bound any float64 Mu, Sigma > 0 finite, p outside (0,1) or NaN
func VxC05_NormalEdges() {
	mu, sigma, p := vx.Float("Mu"), vx.Float("Sigma"), vx.Float("p")
	vx.Assume(vx.And(sigma > 0, sigma < 1e300))
	vx.Assume(math.Abs(mu) < 1e300)
	n := NormalDist{mu, sigma}
	vx.Assume(!(p > 0 && p < 1))
	q := n.InvCDF(p)
	switch {
	case p == 0:
		vx.Cover("zero")
		vx.Assert(math.IsInf(q, -1), "InvCDF(0) is -Inf")
	case p == 1:
		vx.Cover("one")
		vx.Assert(math.IsInf(q, 1), "InvCDF(1) is +Inf")
	default:
		vx.Cover("outside")
		vx.Assert(math.IsNaN(q), "InvCDF is NaN outside [0,1] (and for NaN)")
	}
	lo, hi := n.Bounds()
	vx.Assert(vx.SameBits(n.Mean(), mu) && vx.SameBits(n.Variance(), sigma*sigma) && vx.SameBits(lo, mu-3*sigma) && vx.SameBits(hi, mu+3*sigma), "Mean = Mu, Variance = Sigma^2, Bounds = Mu -/+ 3 Sigma")
}

// VxC05_TReflection: TDist.CDF is 1/2 at 0, reflects exactly about 0, stays in [0,1], NaN for NaN
// (the incomplete beta function abstracted to an arbitrary value in [0,1]).
// C05: "satisfies CDF(c-d)+CDF(c+d)=1 about the centre c".
//
//vx:mode FP
//vx:solver cvc5
//vx:timeout 60000
//vx:stub mathx.BetaInc = vxBetaInc
//vx:bound any float64 V, d
//vx:assume BetaInc returns a value in [0,1] (its accuracy is outside the claim)
func VxC05_TReflection() {
	v, d := vx.Float("V"), vx.Float("d")
	t := TDist{v}
	if math.IsNaN(d) {
		vx.Assert(math.IsNaN(t.CDF(d)), "CDF(NaN) is NaN")
		return
	}
	a, b := t.CDF(d), t.CDF(-d)
	vx.Assert(t.CDF(0) == 0.5, "CDF(0) = 1/2")
	vx.Assert(a+b == 1, "CDF(-d) + CDF(d) = 1 exactly")
	vx.Assert(a >= 0 && a <= 1 && b >= 0 && b <= 1, "CDF values lie in [0,1]")
}

// VxC05_NormalMonotone: NormalDist.CDF is non-decreasing and PDF non-negative, given that erfc is
// non-increasing with values in [0,2] and exp is positive (statement about the argument plumbing).
//
//vx:mode R
//vx:solver z3
//vx:bound any reals Mu, Sigma > 0, x1 <= x2
//vx:assume erfc non-increasing into [0,2]; exp positive (contracts of the uninterpreted functions)
//vx:outside agreement with a high-precision evaluation to 1e-9; symmetry; limits; the integral of PDF
func VxC05_NormalMonotone() {
	mu, sigma := vx.Float("Mu"), vx.Float("Sigma")
	x1, x2 := vx.Float("x1"), vx.Float("x2")
	vx.Assume(sigma > 0)
	vx.Assume(x1 <= x2)
	n := NormalDist{mu, sigma}
	c1, c2 := n.CDF(x1), n.CDF(x2)
	vx.Assert(c1 <= c2, "CDF is non-decreasing")
	vx.Assert(c1 >= 0 && c2 <= 1, "CDF values lie in [0,1]")
	vx.Assert(n.PDF(x1) >= 0, "PDF is non-negative")
}

// vxBetaIncFn: the incomplete beta function as an uninterpreted function (same symbol in the code and in the reference).
func vxBetaIncFn(x, a, b float64) float64 { return vx.UFloat("betaincfn", x, a, b) }

// VxC05_Formulas: the t and normal CDF/PDF are the stated functions of the underlying special
// functions: CDF_t(x) = 1 - I_{V/(V+x^2)}(V/2, 1/2)/2 for x > 0 (reflected for x < 0), CDF_normal(x) =
// erfc(-(x-Mu)/(Sigma sqrt 2))/2, for every parameter value - no parameter range takes a different route.
// A satisfying assignment is confirmed natively with the real special functions to 1e-9.
//
//vx:mode R
//vx:solver z3
//vx:stub mathx.BetaInc = vxBetaIncFn
//vx:bound any reals V > 0, x, Mu, Sigma > 0; BetaInc, erfc, exp uninterpreted (congruence only)
//vx:outside the accuracy of BetaInc/erfc themselves
func VxC05_Formulas() {
	v, x := vx.Float("V"), vx.Float("x")
	vx.Assume(vx.And(v >= 0.1, v <= 1e4))
	vx.Assume(vx.And(x >= -40, x <= 40))
	t := TDist{v}
	var want float64
	ax := math.Abs(x)
	upper := 1 - 0.5*mathxBetaInc(v/(v+ax*ax), v/2, 0.5)
	switch {
	case x == 0:
		want = 0.5
	case x > 0:
		want = upper
	default:
		want = 1 - upper
	}
	vx.Assert(vx.Close(t.CDF(x), want, 1e-9, 1e-9), "the t CDF is 1 - I(V/(V+x^2); V/2, 1/2)/2 above the centre and its reflection below, for every V")
	mu, sigma := vx.Float("Mu"), vx.Float("Sigma")
	vx.Assume(vx.And(sigma >= 1e-6, sigma <= 1e6))
	vx.Assume(vx.And(mu >= -1e6, mu <= 1e6))
	n := NormalDist{mu, sigma}
	z := mu + x*sigma
	vx.Assert(vx.Close(n.CDF(z), math.Erfc(-(z-mu)/(sigma*math.Sqrt2))/2, 1e-9, 1e-12), "the normal CDF is erfc(-(x-Mu)/(Sigma sqrt 2))/2")
	vx.Assert(vx.Close(n.PDF(z), math.Exp(-(z-mu)*(z-mu)/(2*sigma*sigma))*invSqrt2Pi/sigma, 1e-9, 1e-300), "the normal PDF is exp(-(x-Mu)^2/(2 Sigma^2))/(Sigma sqrt(2 pi))")
}

// VxC05_InvCDFPoints: CDF(InvCDF(p)) = p to 1e-9 relative at the branch points of the rational
// approximation and deep in both tails. These are concrete evaluations carried by the interpreter
// (special values, as NaN and the infinities are elsewhere): no quantification over p is claimed -
// the accuracy of erfc/log/exp compositions has no SMT theory (DESIGN 6).
// C05: "NormalDist.InvCDF inverts CDF (CDF(InvCDF(p))=p to 1e-9 relative for 0<p<1".
//
//vx:mode FP
//vx:bound p in {1e-300, 1e-200, 1e-100, 1e-50, 1e-20, 1e-12, 1e-8, 1e-4, just below / at / just above 0.02425 and 0.97575, 0.3, 0.5, 0.7, 1-1e-4, 1-1e-8, 1-1e-12}; (Mu, Sigma) in {(0,1), (2,5), (-3,1/64)} (|Mu|/Sigma moderate: with |Mu|/Sigma ~ 1e12 the spacing of float64 around Mu exceeds 1e-9 Sigma and no x can meet the tolerance)
//vx:outside every other p (no quantification: concrete special values only)
func VxC05_InvCDFPoints() {
	ps := []float64{1e-300, 1e-200, 1e-100, 1e-50, 1e-20, 1e-12, 1e-8, 1e-4, 0.024249999, 0.02425, 0.024250001,
		0.3, 0.5, 0.7, 0.975749999, 0.97575, 0.975750001, 1 - 1e-4, 1 - 1e-8, 1 - 1e-12}
	k := vx.Choose("dist", 0, 2)
	n := []NormalDist{{0, 1}, {2, 5}, {-3, 0.015625}}[k]
	prev := math.Inf(-1)
	for _, p := range ps {
		x := n.InvCDF(p)
		back := n.CDF(x)
		vx.Assert(math.Abs(back-p) <= 1e-9*p, "CDF(InvCDF(p)) = p to 1e-9 relative")
		vx.Assert(prev <= x, "InvCDF is non-decreasing over the special points")
		prev = x
	}
}

//go:build verif

package stats

import (
	"math"

	"github.com/aclements/go-moremath/internal/vx"
	"github.com/aclements/go-moremath/mathx"
)

// vxTieVector enumerates (by case split) nil or a composition of n into >= 2 positive parts.
func vxTieVector(n int) []int {
	if vx.Choose("untied", 0, 1) == 1 {
		return nil
	}
	var t []int
	left := n
	for i := 0; left > 0; i++ {
		hi := left
		if i == 0 {
			hi = left - 1 // at least two ranks
		}
		p := vx.Choose(vxName("t", i), 1, hi)
		t = append(t, p)
		left -= p
	}
	return t
}

// vxUCounts: counts[k] = number of size-n1 subsets of the ranked pool whose statistic is 2U = k,
// by direct enumeration (the reference of the statement). Midranks doubled are integers:
// an item of the g-th tie group has 2*rank = first_g + last_g.
func vxUCounts(n1, n2 int, t []int) (counts []int, total int) {
	n := n1 + n2
	twoRank := make([]int, 0, n)
	if t == nil {
		for i := 1; i <= n; i++ {
			twoRank = append(twoRank, 2*i)
		}
	} else {
		first := 1
		for _, c := range t {
			last := first + c - 1
			for j := 0; j < c; j++ {
				twoRank = append(twoRank, first+last)
			}
			first = last + 1
		}
	}
	counts = make([]int, 2*n1*n2+1)
	for mask := 0; mask < 1<<uint(n); mask++ {
		sz, sum := 0, 0
		for i := 0; i < n; i++ {
			if mask>>uint(i)&1 == 1 {
				sz++
				sum += twoRank[i]
			}
		}
		if sz != n1 {
			continue
		}
		counts[sum-n1*(n1+1)]++
		total++
	}
	return
}

// VxC02_UDist: CDF(u) is the mass at points <= u for every real u, PMF(u) the mass at each
// attainable point, for every (N1, N2, T) in the bound, against direct subset enumeration.
// C02: "UDist.PMF(u) at each attainable point u equals the number of size-N1 subsets of the ranked pool whose U
// statistic is u divided by C(N1+N2,N1), and UDist.CDF(u) equals the total mass at points <= u for every real u,
// being 0 below zero and 1 from N1*N2 upward."
//
//vx:mode R
//vx:solver z3
//vx:maxsteps 200000000
//vx:bound N1+N2 <= 6 (quick) / <= 8 (thorough), every split and every tie vector (case split); u any real: the solver partitions the line into the half-integer cells, on-grid and off-grid
//vx:outside N1+N2 above the bound (the 50+50 / 25+25 sizes of the quantifier text); NaN/Inf arguments and the float->int conversions bit-precisely (see VxC02_UDistFP)
func VxC02_UDist() {
	vxC02Body(6 + 2*vx.Tier())
}

// VxC02_UDistFP: the same with u a bit-precise float64 (conversions int(2*U), Floor, the
// 0.5+N1*N2 guard in the FloatingPoint theory), at a smaller size bound.
//
//vx:mode FP
//vx:solver cvc5
//vx:maxsteps 200000000
//vx:bound N1+N2 <= 4 (quick) / <= 5 (thorough); u any non-NaN float64
func VxC02_UDistFP() {
	vxC02Body(4 + vx.Tier())
}

func vxC02Body(maxN int) {
	n := vx.Choose("N", 2, maxN)
	n1 := vx.Choose("N1", 1, n-1)
	n2 := n - n1
	t := vxTieVector(n)
	d := UDist{N1: n1, N2: n2, T: t}
	u := vx.Float("u")
	vx.Assume(!math.IsNaN(u))
	lo, hi := d.Bounds()
	vx.Assert(lo == 0 && hi == float64(n1*n2) && d.Step() == 0.5, "Bounds and Step")
	if u < 0 {
		vx.Cover("below")
		vx.Assert(d.CDF(u) == 0 && d.PMF(u) == 0, "no mass below zero")
		return
	}
	if u >= float64(n1*n2)+0.5 {
		vx.Cover("above")
		vx.Assert(d.CDF(u) == 1 && d.PMF(u) == 0, "all mass at or below N1*N2")
		return
	}
	// fix the cell of u: floor(2u) (2*u is exact in float64)
	twoU := vx.Concretize(int(2 * u))
	onGrid := 2*u == float64(twoU)
	vx.Concretize(int(math.Floor(u)))
	var cdf, pmf float64
	if vx.Panics(func() { cdf = d.CDF(u); pmf = d.PMF(u) }) {
		vx.Assert(false, "UDist.CDF/PMF do not panic")
		return
	}
	counts, total := vxUCounts(n1, n2, t)
	cum := 0
	for k := 0; k <= twoU && k < len(counts); k++ {
		cum += counts[k]
	}
	ftotal := float64(total)
	vx.Assert(ftotal == mathx.Choose(n, n1), "C(N1+N2,N1) subsets")
	vx.Assert(vx.Close(cdf, float64(cum)/ftotal, 1e-12, 1e-12), "CDF(u) is the mass at points <= u")
	if onGrid && twoU < len(counts) && counts[twoU] > 0 {
		vx.Cover("attainable")
		vx.Assert(vx.Close(pmf, float64(counts[twoU])/ftotal, 1e-12, 1e-12), "PMF(u) is the mass at the attainable point u")
	}
	if u >= float64(n1*n2) {
		vx.Assert(cdf == 1, "CDF is 1 from N1*N2 upward")
	}
}

// VxC02_UDistSmallSide: the same exactness for pools of 21..26 observations when one sample has
// one or two observations, tied over three or four ranks (the sizes at which mathx.Choose leaves
// its exact range and the tied recurrence falls back to closed-form counts). The reference
// enumerates the size-1 or size-2 subsets directly (through the complement when the small sample is the second).
// C02: "UDist.PMF(u) at each attainable point u equals the number of size-N1 subsets ... divided by C(N1+N2,N1), and UDist.CDF(u)
// equals the total mass at points <= u for every real u".
//
//vx:mode R
//vx:solver z3
//vx:maxsteps 400000000
//vx:maxdec 200000
//vx:budget 1500
//vx:bound N1+N2 in {22,25} (quick) / 21..26 (thorough), the smaller sample of 1 or 2 (either side), tie vectors {a,b,rest} and {a,b,1,rest-1} with a,b in {1,2,N/2-1}; u any real
//vx:outside both samples above 2 at these pool sizes (the subset reference is exponential)
func VxC02_UDistSmallSide() {
	var n int
	if vx.Tier() == 0 {
		n = []int{22, 25}[vx.Choose("Nsel", 0, 1)]
	} else {
		n = vx.Choose("N", 21, 26)
	}
	small := vx.Choose("small", 1, 2)
	mirror := vx.Choose("mirror", 0, 1) == 1
	sel := []int{1, 2, n/2 - 1}
	a, b := sel[vx.Choose("ta", 0, 2)], sel[vx.Choose("tb", 0, 2)]
	rest := n - a - b
	t := []int{a, b, rest}
	if vx.Choose("k4", 0, 1) == 1 {
		t = []int{a, b, 1, rest - 1}
	}
	n1, n2 := small, n-small
	if mirror {
		n1, n2 = n2, n1
	}
	d := UDist{N1: n1, N2: n2, T: t}
	u := vx.Float("u")
	vx.Assume(vx.And(u >= 0, u <= float64(n1*n2)))
	twoU := vx.Concretize(int(2 * u))
	onGrid := 2*u == float64(twoU)
	vx.Concretize(int(math.Floor(u)))
	var cdf, pmf float64
	if vx.Panics(func() { cdf = d.CDF(u); pmf = d.PMF(u) }) {
		vx.Assert(false, "UDist.CDF/PMF do not panic")
		return
	}
	// doubled midranks
	twoRank := make([]int, 0, n)
	first, all := 1, 0
	for _, c := range t {
		last := first + c - 1
		for j := 0; j < c; j++ {
			twoRank = append(twoRank, first+last)
			all += first + last
		}
		first = last + 1
	}
	counts := make([]int, 2*n1*n2+1)
	total := 0
	add := func(sumSmall int) {
		sum := sumSmall
		if mirror {
			sum = all - sumSmall
		}
		counts[sum-n1*(n1+1)]++
		total++
	}
	for i := 0; i < n; i++ {
		if small == 1 {
			add(twoRank[i])
			continue
		}
		for j := i + 1; j < n; j++ {
			add(twoRank[i] + twoRank[j])
		}
	}
	cum := 0
	for k := 0; k <= twoU && k < len(counts); k++ {
		cum += counts[k]
	}
	ftotal := float64(total)
	vx.Assert(vx.Close(cdf, float64(cum)/ftotal, 1e-12, 1e-12), "CDF(u) is the mass at points <= u (large pool, small sample)")
	if onGrid && twoU < len(counts) && counts[twoU] > 0 {
		vx.Cover("attainable")
		vx.Assert(vx.Close(pmf, float64(counts[twoU])/ftotal, 1e-12, 1e-12), "PMF(u) is the mass at the attainable point u (large pool, small sample)")
	}
}

//go:build verif

package stats

import (
	"math"

	"github.com/aclements/go-moremath/internal/vx"
)

// vxTS is a TTestSample with arbitrary (symbolic) summary statistics.
type vxTS struct{ n, mean, v float64 }

func (s vxTS) Weight() float64   { return s.n }
func (s vxTS) Mean() float64     { return s.mean }
func (s vxTS) Variance() float64 { return s.v }

func vxSummary(p string, lo int) vxTS {
	n := vx.Choose(p+".n", lo, 3+3*vx.Tier())
	s := vxTS{n: float64(n), mean: vx.Float(p + ".mean"), v: vx.Float(p + ".var")}
	vx.Assume(s.v >= 0)
	return s
}

// vxBetaInc abstracts the regularized incomplete beta function to an arbitrary value in [0,1].
func vxBetaInc(x, a, b float64) float64 {
	v := vx.UFloat("betainc", x, a, b)
	vx.Assume(vx.And(v >= 0, v <= 1))
	return v
}

func vxWantP(t, dof float64, alt LocationHypothesis) float64 {
	d := TDist{dof}
	switch alt {
	case LocationLess:
		return d.CDF(t)
	case LocationGreater:
		return 1 - d.CDF(t)
	}
	return 2 * (1 - d.CDF(math.Abs(t)))
}

// VxC04_TwoSample: pooled and Welch statistics, degrees of freedom, tails, swap and affine invariance.
// C04: "TwoSampleTTest, TwoSampleWelchTTest ... return the textbook statistic T and degrees of freedom (n1+n2-2 pooled,
// Welch-Satterthwaite ...) with P equal to the Student-t probability CDF(T) for LocationLess, 1-CDF(T) for LocationGreater
// and 2(1-CDF(|T|)) for LocationDiffers ... Swapping the samples negates T and exchanges the one-sided p-values, and adding a
// constant to all data or multiplying it by a positive constant leaves T, DoF and P unchanged."
//
//vx:jobs 1
//vx:mode R
//vx:solver z3
//vx:timeout 60000
//vx:stub mathx.BetaInc = vxBetaInc
//vx:bound sizes n1, n2 = 2..5 (quick) / 2..10 (thorough) case-split; means and variances arbitrary reals (variances >= 0, not both 0); shift b and scale a > 0 arbitrary reals; BetaInc abstracted to an arbitrary value in [0,1]
//vx:outside rounding error of the statistics; the numerical value of the t CDF and hence of P (only which tail is reported is decided)
func VxC04_TwoSample() {
	welch := vx.Choose("welch", 0, 1) == 1
	alt := LocationHypothesis(vx.Choose("alt", -1, 1))
	x1, x2 := vxSummary("x1", 2), vxSummary("x2", 2)
	test := TwoSampleTTest
	if welch {
		test = TwoSampleWelchTTest
	}
	res, err := test(x1, x2, alt)
	if x1.v == 0 && x2.v == 0 {
		vx.Cover("zero-variance")
		vx.Assert(err == ErrZeroVariance && res == nil, "ErrZeroVariance when both variances are zero")
		return
	}
	vx.Assert(err == nil && res != nil, "no error for samples of two or more values that are not both constant")
	if err != nil {
		return
	}
	n1, n2 := x1.n, x2.n
	var se2, dof float64
	if welch {
		a, b := x1.v/n1, x2.v/n2
		se2 = a + b
		dof = (a + b) * (a + b) / (a*a/(n1-1) + b*b/(n2-1))
	} else {
		dof = n1 + n2 - 2
		se2 = ((n1-1)*x1.v + (n2-1)*x2.v) / dof * (1/n1 + 1/n2)
	}
	vx.Assert(res.N1 == int(n1) && res.N2 == int(n2) && res.AltHypothesis == alt, "sizes and alternative are reported")
	vx.Assert(vx.Close(res.DoF, dof, 1e-9, 1e-9), "degrees of freedom: n1+n2-2 (pooled) / Welch-Satterthwaite")
	d := x1.mean - x2.mean
	vx.Assert(vx.Close(res.T*res.T*se2, d*d, 1e-9, 1e-9) && (res.T > 0) == (d > 0) && (res.T < 0) == (d < 0), "T is the difference of means over its standard error")
	vx.Assert(vx.Close(res.P, vxWantP(res.T, res.DoF, alt), 1e-12, 1e-12), "P is CDF(T), 1-CDF(T) or 2(1-CDF(|T|)) of the Student t distribution")
	// swapping the samples
	sw, err2 := test(x2, x1, -alt)
	vx.Assert(err2 == nil, "swapped call succeeds")
	if err2 == nil {
		vx.Assert(vx.Close(sw.T, -res.T, 1e-9, 1e-12) && vx.Close(sw.DoF, res.DoF, 1e-9, 1e-9), "swapping the samples negates T and keeps DoF")
	}
}

// VxC04_Affine: adding a constant to all data or multiplying it by a positive constant leaves T and DoF unchanged.
//
//vx:budget 900
//vx:jobs 1
//vx:mode R
//vx:solver z3
//vx:timeout 60000
//vx:stub mathx.BetaInc = vxBetaInc
//vx:bound sizes 2..3 (quick) / 2..6 (thorough); means, variances, shift b and scale a > 0 arbitrary reals (x -> a*x+b scales means by a, plus b, and variances by a^2: C09)
func VxC04_Affine() {
	welch := vx.Choose("welch", 0, 1) == 1
	x1, x2 := vxSummary("x1", 2), vxSummary("x2", 2)
	vx.Assume(vx.Or(x1.v > 0, x2.v > 0))
	test := TwoSampleTTest
	if welch {
		test = TwoSampleWelchTTest
	}
	res, err := test(x1, x2, LocationDiffers)
	vx.Assume(err == nil)
	// x -> x+b and x -> a*x separately (their composition is the general affine map)
	a, b := 1.0, 0.0
	if vx.Choose("op", 0, 1) == 0 {
		b = vx.Float("b")
	} else {
		a = vx.Float("a")
		vx.Assume(a > 0)
	}
	y1 := vxTS{x1.n, a*x1.mean + b, a * a * x1.v}
	y2 := vxTS{x2.n, a*x2.mean + b, a * a * x2.v}
	af, err3 := test(y1, y2, LocationDiffers)
	vx.Assert(err3 == nil, "rescaled call succeeds")
	if err3 == nil {
		vx.Assert(vx.Close(af.DoF, res.DoF, 1e-9, 1e-9), "adding a constant or multiplying by a positive constant leaves DoF unchanged")
		vx.Assert(vx.Close(af.T, res.T, 1e-9, 1e-9), "adding a constant or multiplying by a positive constant leaves T unchanged")
	}
}

// vxMeanUF / vxStdDevUF stand for Mean and StdDev (their correctness is C09's subject): arbitrary
// functions of the data, so that the paired statistic can be compared structurally.
func vxMeanUF(xs []float64) float64   { return vx.UFloat("mean", xs...) }
func vxStdDevUF(xs []float64) float64 { return vx.UFloat("stddev", xs...) }

type vxSampleUF struct{ xs []float64 }

func (s vxSampleUF) Weight() float64   { return float64(len(s.xs)) }
func (s vxSampleUF) Mean() float64     { return Mean(s.xs) }
func (s vxSampleUF) Variance() float64 { v := StdDev(s.xs); return v * v }

// VxC04_OneSamplePaired: the paired and one-sample statistics, n-1 degrees of freedom and the tails.
// C04: "PairedTTest and OneSampleTTest return the textbook statistic T and degrees of freedom (... n-1) ..."
//
//vx:mode R
//vx:solver z3
//vx:jobs 4
//vx:stub mathx.BetaInc = vxBetaInc
//vx:stub stats.Mean = vxMeanUF
//vx:stub stats.StdDev = vxStdDevUF
//vx:bound n = 2..5 values per sample, any real data and mu0; Mean and StdDev replaced by uninterpreted functions of the differences (assume-guarantee with C09); BetaInc abstracted
func VxC04_OneSamplePaired() {
	n := vx.Choose("n", 2, 5)
	alt := LocationHypothesis(vx.Choose("alt", -1, 1))
	x1, x2 := vx.Floats("a", n), vx.Floats("b", n)
	mu := vx.Float("mu0")
	diff := make([]float64, n)
	for i := range diff {
		diff[i] = x1[i] - x2[i]
	}
	vx.Freeze(x1, x2)
	res, err := PairedTTest(x1, x2, mu, alt)
	vx.Thaw()
	sd, m := StdDev(diff), Mean(diff) // stubbed in the engine, the real functions natively
	if sd == 0 {
		vx.Cover("zero-variance")
		vx.Assert(err == ErrZeroVariance && res == nil, "ErrZeroVariance when the differences have zero spread")
		return
	}
	vx.Assert(err == nil && res != nil, "no error")
	if err != nil {
		return
	}
	fn := float64(n)
	vx.Assert(res.DoF == fn-1 && res.N1 == n && res.N2 == n && res.AltHypothesis == alt, "paired test: n-1 degrees of freedom")
	vx.Assert(vx.SameBits(res.T, (m-mu)*math.Sqrt(fn)/sd), "paired T = (mean of the differences - mu0) sqrt(n) / s")
	vx.Assert(vx.SameBits(res.P, vxWantP(res.T, res.DoF, alt)), "P is the stated Student t tail")
	one, err1 := OneSampleTTest(vxSampleUF{diff}, mu, alt)
	if err1 == nil {
		vx.Assert(one.DoF == fn-1 && one.N1 == n && one.N2 == 0, "one-sample test: n-1 degrees of freedom")
		vx.Assert(vx.SameBits(one.T, (m-mu)*math.Sqrt(fn)/math.Sqrt(sd*sd)), "one-sample T = (mean - mu0) sqrt(n) / sqrt(variance)")
		vx.Assert(vx.SameBits(one.P, vxWantP(one.T, one.DoF, alt)), "one-sample P is the stated Student t tail")
	}
}

// VxC04_Errors: the documented errors.
//
//vx:mode R
//vx:solver z3
//vx:stub mathx.BetaInc = vxBetaInc
//vx:bound sample sizes 0..3; variances zero or positive (case split), means arbitrary reals
func VxC04_Errors() {
	n1, n2 := float64(vx.Choose("n1", 0, 3)), float64(vx.Choose("n2", 0, 3))
	x1 := vxTS{n1, vx.Float("m1"), 2 * float64(vx.Choose("v1", 0, 1))}
	x2 := vxTS{n2, vx.Float("m2"), 2 * float64(vx.Choose("v2", 0, 1))}
	_, e := TwoSampleTTest(x1, x2, LocationDiffers)
	if n1 == 0 || n2 == 0 {
		vx.Assert(e == ErrSampleSize, "pooled test: ErrSampleSize for an empty sample")
	}
	_, e = TwoSampleWelchTTest(x1, x2, LocationDiffers)
	if n1 <= 1 || n2 <= 1 {
		vx.Assert(e == ErrSampleSize, "Welch test: ErrSampleSize for fewer than two values")
	}
	_, e = OneSampleTTest(x1, 0, LocationDiffers)
	if n1 == 0 {
		vx.Assert(e == ErrSampleSize, "one-sample test: ErrSampleSize for an empty sample")
	} else if x1.v == 0 {
		vx.Assert(e == ErrZeroVariance, "one-sample test: ErrZeroVariance")
	} else if n1 >= 2 {
		vx.Assert(e == nil, "one-sample test succeeds otherwise")
	}
	a, b := make([]float64, int(n1)), make([]float64, int(n2))
	_, e = PairedTTest(a, b, 0, LocationDiffers)
	if n1 != n2 {
		vx.Assert(e == ErrMismatchedSamples, "paired test: ErrMismatchedSamples")
	} else if n1 <= 1 {
		vx.Assert(e == ErrSampleSize, "paired test: ErrSampleSize")
	} else {
		vx.Assert(e == ErrZeroVariance, "paired test of constant differences: ErrZeroVariance")
	}
}

// vxTQuantile abstracts InvCDF(TDist{...}): an arbitrary function of the level.
func vxTQuantile(dist DistCommon) func(float64) float64 {
	v := -1.0
	if d, ok := dist.(TDist); ok {
		v = d.V
	}
	return func(y float64) float64 { return vx.UFloat("tquantile", v, y) }
}

// vxTQ is the quantile the harness expects: the same uninterpreted function of (degrees of freedom,
// level) in the engine, the real generic InvCDF of the t distribution natively (candidate replay).
func vxTQ(v, y float64) float64 {
	if vx.Engine() {
		return vx.UFloat("tquantile", v, y)
	}
	return InvCDF(TDist{V: v})(y)
}

// VxC04_MeanCI: mean, interval shape and the special cases.
// C04: "MeanCI(xs,c) returns the mean and the symmetric interval mean +/- t*s/sqrt(n) ..., with zero width for c<=0,
// infinite width for c>=1 or n<=1, and NaN for empty input."
//
//vx:mode FP
//vx:solver cvc5
//vx:stub stats.InvCDF = vxTQuantile
//vx:bound n = 0..4 finite values (|x| <= 1e100); c any non-NaN float64; the Student t quantile is an uninterpreted function of (degrees of freedom, level) (its correctness is C07's subject)
//vx:outside "whose Student-t probability content is exactly c" (the value of the t quantile)
func VxC04_MeanCI() {
	n := vx.Choose("n", 0, 4)
	xs := vx.Floats("x", n)
	c := vx.Float("c")
	vx.Assume(!math.IsNaN(c))
	for _, x := range xs {
		vx.Assume(vx.And(x >= -1e100, x <= 1e100))
	}
	vx.Freeze(xs)
	mean, lo, hi := MeanCI(xs, c)
	vx.Thaw()
	if n == 0 {
		vx.Assert(math.IsNaN(mean), "empty input: NaN mean")
		return
	}
	vx.Assert(vx.SameBits(mean, Mean(xs)), "the point estimate is the mean")
	switch {
	case c <= 0:
		vx.Cover("zero-width")
		vx.Assert(lo == mean && hi == mean, "zero width for c <= 0")
	case c >= 1 || n <= 1:
		vx.Cover("infinite-width")
		vx.Assert(math.IsInf(lo, -1) && math.IsInf(hi, 1), "infinite width for c >= 1 or n <= 1")
	default:
		vx.Cover("interval")
		t := -vxTQ(float64(n-1), (1-c)/2)
		w := t * StdDev(xs) / math.Sqrt(float64(n))
		vx.Assert((vx.SameBits(lo, mean-w) && vx.SameBits(hi, mean+w)) || (!vx.Engine() && vx.Close(lo, mean-w, 1e-9, 1e-300) && vx.Close(hi, mean+w, 1e-9, 1e-300)),
			"the interval is mean -/+ t*s/sqrt(n) with t the upper (1+c)/2 quantile of the t distribution with n-1 degrees of freedom")
	}
}

// VxC04_PairedConstantDifference: ErrZeroVariance exactly concerns the differences: samples that
// vary but differ by a constant have zero-variance differences.
// C04: "return the documented errors for too-small, mismatched or zero-variance input".
//
//vx:mode R
//vx:solver z3
//vx:jobs 2
//vx:timeout 60000
//vx:stub mathx.BetaInc = vxBetaInc
//vx:bound n = 2..3 values, x1 arbitrary reals, x2 = x1 + c for an arbitrary real c (differences exactly constant); mu0 arbitrary
func VxC04_PairedConstantDifference() {
	n := vx.Choose("n", 2, 3)
	x1 := vx.Floats("a", n)
	c := vx.Float("c")
	x2 := make([]float64, n)
	for i := range x2 {
		x2[i] = x1[i] + c
	}
	res, err := PairedTTest(x1, x2, vx.Float("mu0"), LocationDiffers)
	vx.Assert(err == ErrZeroVariance && res == nil, "paired test: ErrZeroVariance when all differences are equal, however the samples themselves vary")
}

//go:build verif

package stats

import (
	"math"

	"github.com/aclements/go-moremath/internal/vx"
)

// vxIdHist is a Histogram whose BinToValue is the identity, so HistogramQuantile's
// result exposes (bin + rank/count) directly.
type vxIdHist struct {
	under, over uint
	counts      []uint
}

func (h vxIdHist) Add(float64)                    {}
func (h vxIdHist) Counts() (uint, []uint, uint)   { return h.under, h.counts, h.over }
func (h vxIdHist) BinToValue(bin float64) float64 { return bin }

// vxLoc: which bin holds the 0-based sample index i (-1 under, nb over), as one term.
func vxLoc(h vxIdHist, i uint) int {
	nb := len(h.counts)
	loc := nb
	cum := h.under
	for _, c := range h.counts {
		cum += c
	}
	// walk backwards so that the first matching prefix wins
	for b := nb - 1; b >= 0; b-- {
		cum -= h.counts[b]
		// cum = under + counts[0..b)
		loc = vx.IteInt(i < cum+h.counts[b], b, loc)
	}
	return vx.IteInt(i < h.under, -1, loc)
}

// VxC14_QuantileEnds: symbolic counters (an arbitrary histogram state), q at the two ends of
// [0,1]: no panic; q=0 is NaN exactly when the first sample is in the under/over-flow.
// C14: "HistogramQuantile(h,q) ... all q in [0,1] including 0 and 1".
//
//vx:mode R
//vx:solver z3-new
//vx:bound 1..3 bins (quick) / 1..5 (thorough); every counter symbolic in [0, 2^20]; q in {0, 1}
//vx:assume float64(total) is exact (total < 2^53) - the exact-real reading of the one conversion involved
func VxC14_QuantileEnds() {
	nb := vx.Choose("nb", 1, 3+2*vx.Tier())
	h := vxIdHist{under: vx.Uint("under"), over: vx.Uint("over"), counts: make([]uint, nb)}
	vx.Assume(vx.And(h.under <= 1<<20, h.over <= 1<<20))
	total := h.under + h.over
	for i := range h.counts {
		h.counts[i] = vx.Uint(vxName("count", i))
		vx.Assume(h.counts[i] <= 1<<20)
		total += h.counts[i]
	}
	vx.Assume(total > 0)
	q := float64(vx.Choose("q", 0, 1))
	var got float64
	panicked := vx.Panics(func() { got = HistogramQuantile(h, q) })
	vx.Assert(!panicked, "HistogramQuantile does not panic for q in {0,1}")
	if panicked || q == 1 {
		return
	}
	// q == 0: rank 0 names no sample in the 1-based reading, so only "no panic" is required;
	// a value, if returned, must come from the bin holding the first sample
	b1 := vxLoc(h, 0)
	if !math.IsNaN(got) {
		vx.Cover("value")
		vx.Assert(vx.And(b1 >= 0, b1 < nb), "Q(0), when it is a value, comes from the binned range")
	}
}

func vxName(p string, i int) string {
	return p + string(rune('0'+i))
}

// vxSmallHist: a histogram with concrete small counters (case split).
func vxSmallHist(maxBins, maxCount, maxFlow int) (h vxIdHist, nb int, total uint) {
	nb = vx.Choose("nb", 1, maxBins)
	h = vxIdHist{under: uint(vx.Choose("under", 0, maxFlow)), over: uint(vx.Choose("over", 0, maxFlow)), counts: make([]uint, nb)}
	total = h.under + h.over
	for i := range h.counts {
		h.counts[i] = uint(vx.Choose(vxName("count", i), 0, maxCount))
		total += h.counts[i]
	}
	vx.Assume(total > 0)
	return
}

// VxC14_QuantileValue: concrete small counters, symbolic q (bit-precise): no panic, NaN exactly
// when the rank-th sample is in the under/over-flow, otherwise a value inside the bin holding it.
// The statement does not say whether ranks start at 0 or 1; either reading is accepted (DESIGN 5 C14).
//
//vx:mode FP
//vx:solver cvc5
//vx:bound 1..2 bins, counters 0..2, under/over 0..1 (quick); 1..3 bins, counters 0..2, under/over 0..2 (thorough); q any float64 in [0,1] - the solver partitions [0,1] into rank classes
//vx:outside counters above 2; more than 3 bins
func VxC14_QuantileValue() {
	h, nb, total := vxSmallHist(2+vx.Tier(), 2, 1+vx.Tier())
	q := vx.Float("q")
	vx.Assume(vx.And(q >= 0, q <= 1))
	g := uint(vx.Concretize(int(uint(float64(total) * q))))
	vx.Assert(g <= total, "floor(q*total) never exceeds total")
	var got float64
	if vx.Panics(func() { got = HistogramQuantile(h, q) }) {
		vx.Assert(false, "HistogramQuantile does not panic for q in [0,1]")
		return
	}
	if g == total {
		vx.Cover("q-is-one")
		return // the statement names no sample for rank = total; only "no panic" is required
	}
	e0 := g >= 1
	b0, b1 := vxLoc(h, g-1), vxLoc(h, g)
	out0 := b0 == -1 || b0 == nb
	out1 := b1 == -1 || b1 == nb
	if math.IsNaN(got) {
		vx.Cover("nan")
		vx.Assert(!e0 || out0 || out1, "NaN only when the rank-th sample (0- or 1-based) is in the under- or over-flow (rank 0 names no sample in the 1-based reading)")
		return
	}
	vx.Cover("value")
	vx.Assert(!(e0 && out0 && out1), "NaN required when the rank-th sample is in the under- or over-flow under both readings")
	in0 := e0 && !out0 && got >= float64(b0) && got <= float64(b0+1)
	in1 := !out1 && got >= float64(b1) && got <= float64(b1+1)
	vx.Assert(in0 || in1, "the quantile lies inside the bin holding the rank-th sample")
}

// VxC14_QuantileMonotone: non-decreasing in q (exact-real reading of floor(q*total); the
// interpolated value itself is evaluated in float64 on concrete counters).
//
//vx:mode R
//vx:solver z3
//vx:bound 1..2 bins (quick) / 1..3 (thorough), counters 0..2, under/over 0..1; any reals 0 <= q1 <= q2 <= 1
func VxC14_QuantileMonotone() {
	h, _, total := vxSmallHist(2+vx.Tier(), 2, 1)
	q, q2 := vx.Float("q"), vx.Float("q2")
	vx.Assume(vx.And(q >= 0, q <= q2))
	vx.Assume(q2 <= 1)
	g := uint(vx.Concretize(int(uint(float64(total) * q))))
	g2 := uint(vx.Concretize(int(uint(float64(total) * q2))))
	vx.Assert(g <= g2, "rank is non-decreasing in q")
	// evaluate at the class representatives (k+0.5)/total, exact ranks k
	got := HistogramQuantile(h, (float64(g)+0.5)/float64(total))
	got2 := HistogramQuantile(h, (float64(g2)+0.5)/float64(total))
	if g < total && g2 < total && !math.IsNaN(got) && !math.IsNaN(got2) {
		vx.Cover("both-values")
		vx.Assert(got <= got2, "HistogramQuantile is non-decreasing in q")
	}
}

// VxC14_IQR: HistogramIQR is Q(0.75)-Q(0.25).
//
//vx:mode FP
//vx:bound 1..2 bins, counters 0..3 case-split (everything concrete: decided by evaluation of the encoding)
func VxC14_IQR() {
	nb := vx.Choose("nb", 1, 2)
	h := vxIdHist{under: uint(vx.Choose("under", 0, 1)), over: uint(vx.Choose("over", 0, 1)), counts: make([]uint, nb)}
	total := h.under + h.over
	for i := range h.counts {
		h.counts[i] = uint(vx.Choose(vxName("count", i), 0, 3))
		total += h.counts[i]
	}
	vx.Assume(total > 0)
	var iqr, a, b float64
	if vx.Panics(func() { iqr = HistogramIQR(h); a = HistogramQuantile(h, 0.75); b = HistogramQuantile(h, 0.25) }) {
		vx.Assert(false, "HistogramIQR does not panic")
		return
	}
	vx.Assert(vx.SameBits(iqr, a-b), "HistogramIQR = Q(0.75) - Q(0.25)")
}

// vxAnyBin stands for (*LinearHist).bin / (*LogHist).bin in the conservation harnesses:
// whatever index the float arithmetic produces, Add must count the value exactly once.
// The harness chooses x so that the real bin() returns the same index natively.
func vxAnyBinLinear(h *LinearHist, x float64) int { return vx.Int("bin") }
func vxAnyBinLog(h *LogHist, x float64) int       { return vx.Int("bin") }

// VxC14_LinearConservation: every Add increments exactly one counter, from an arbitrary
// counter state and for every bin index the float arithmetic can produce.
// C14: "Every Add to a LinearHist or LogHist increments exactly one counter".
//
//vx:solver z3-new
//vx:timeout 90000
//vx:stub stats.(*LinearHist).bin = vxAnyBinLinear
//vx:bound 1..4 bins (quick) / 1..8 (thorough); all counters symbolic; bin index any int64 (assume-guarantee: bin() replaced by an arbitrary index)
func VxC14_LinearConservation() {
	nb := vx.Choose("nb", 1, 4+4*vx.Tier())
	b := vx.Int("bin")
	vx.Assume(vx.And(b >= -1<<40, b <= 1<<40))
	h := &LinearHist{min: 0, max: float64(nb), delta: 1, low: vx.Uint("low"), high: vx.Uint("high"), bins: make([]uint, nb)}
	sum := h.low + h.high
	for i := range h.bins {
		h.bins[i] = vx.Uint(vxNameN("bin", i))
		sum += h.bins[i]
	}
	old := append([]uint(nil), h.bins...)
	low0, high0 := h.low, h.high
	x := float64(b) + 0.5
	h.Add(x)
	inc := vx.IteInt(h.low == low0+1, 1, 0) + vx.IteInt(h.high == high0+1, 1, 0)
	same := vx.IteInt(h.low == low0, 1, 0) + vx.IteInt(h.high == high0, 1, 0)
	for i := range h.bins {
		inc += vx.IteInt(h.bins[i] == old[i]+1, 1, 0)
		same += vx.IteInt(h.bins[i] == old[i], 1, 0)
	}
	_ = sum
	vx.Assert(inc == 1 && same == nb+1, "Add increments exactly one counter and leaves the others unchanged")
	u, cs, o := h.Counts()
	vx.Assert(u == h.low && o == h.high && len(cs) == nb, "Counts reports the counters")
	vx.Assert((h.low == low0+1) == (b < 0), "negative index counts as under-flow")
	vx.Assert((h.high == high0+1) == (b >= int(nb)), "index beyond the bins counts as over-flow")
}

// VxC14_LogConservation: the same for LogHist.
//
//vx:solver z3-new
//vx:timeout 90000
//vx:stub stats.(*LogHist).bin = vxAnyBinLog
//vx:bound 1..4 bins (quick) / 1..8 (thorough); all counters symbolic; bin index any int64
func VxC14_LogConservation() {
	nb := vx.Choose("nb", 1, 4+4*vx.Tier())
	b := vx.Int("bin")
	vx.Assume(vx.And(b >= -1000, b <= 1000))
	h := &LogHist{b: 2, m: 1, mOverLogb: 1 / math.Log(2), low: vx.Uint("low"), high: vx.Uint("high"), bins: make([]uint, nb)}
	sum := h.low + h.high
	for i := range h.bins {
		h.bins[i] = vx.Uint(vxNameN("bin", i))
		sum += h.bins[i]
	}
	old := append([]uint(nil), h.bins...)
	low0, high0 := h.low, h.high
	x := math.Pow(2, float64(b)+0.5)
	h.Add(x)
	inc := vx.IteInt(h.low == low0+1, 1, 0) + vx.IteInt(h.high == high0+1, 1, 0)
	same := vx.IteInt(h.low == low0, 1, 0) + vx.IteInt(h.high == high0, 1, 0)
	for i := range h.bins {
		inc += vx.IteInt(h.bins[i] == old[i]+1, 1, 0)
		same += vx.IteInt(h.bins[i] == old[i], 1, 0)
	}
	_ = sum
	vx.Assert(inc == 1 && same == nb+1, "Add increments exactly one counter and leaves the others unchanged")
	vx.Assert((h.low == low0+1) == (b < 0), "negative index counts as under-flow")
	vx.Assert((h.high == high0+1) == (b >= int(nb)), "index beyond the bins counts as over-flow")
}

// VxC14_SpecialValues: NaN, infinities and huge values are counted exactly once too
// (concrete x, real bin(); the float->int conversion follows amd64).
//
//vx:solver z3-new
//vx:bound x in {NaN, +-Inf, +-1e300, +-0, min, max}; 3 bins; counters symbolic
func VxC14_SpecialValues() {
	xs := []float64{math.NaN(), math.Inf(1), math.Inf(-1), 1e300, -1e300, 0, math.Copysign(0, -1), 2, 5}
	x := xs[vx.Choose("x", 0, len(xs)-1)]
	h := NewLinearHist(2, 5, 3)
	h.low, h.high = vx.Uint("low"), vx.Uint("high")
	sum := h.low + h.high
	for i := range h.bins {
		h.bins[i] = vx.Uint(vxNameN("bin", i))
		sum += h.bins[i]
	}
	h.Add(x)
	sum2 := h.low + h.high
	for i := range h.bins {
		sum2 += h.bins[i]
	}
	vx.Assert(sum2 == sum+1, "Add increments exactly one counter (special values)")
}

// VxC14_LinearExactEdges: on a histogram whose edges and bin width are exact in float64
// (NewLinearHist(2, 5, 3): delta = 1, x-2 is exact next to every edge), the stated half-open bins are
// decided bit-precisely for every float64 x: under iff x < 2, bin i iff 2+i <= x < 3+i, over iff
// x >= 5 - in particular x exactly equal to max is over-flow ("at or above the end of the last bin"),
// which the exact-real harness can only say in a clause the native replay cannot evaluate.
//
//vx:mode FP
//vx:solver cvc5
//vx:timeout 60000
//vx:bound NewLinearHist(2, 5, 3) and NewLinearHist(0, 4, 4) (delta exactly 1, and x-min exact next to every edge); x any float64 except NaN (every edge neighbourhood, subnormals, zeros, values beyond 2^63 and both infinities included)
//vx:outside histograms whose delta, edges or x-min round - e.g. NewLinearHist(-4, 4, 4), where x = -1e-300 gives x+4 = 4 and is binned above the edge 0 (there a value within rounding distance of an edge may fall on either side); NaN (b is NaN and reaches Go's implementation-defined float->int conversion; that exactly one counter moves is decided by VxC14_SpecialValues)
func VxC14_LinearExactEdges() {
	x := vx.Float("x")
	vx.Assume(x == x)
	var h *LinearHist
	var lo, w float64
	var nb int
	if vx.Choose("hist", 0, 1) == 0 {
		h, lo, w, nb = NewLinearHist(2, 5, 3), 2, 1, 3
	} else {
		h, lo, w, nb = NewLinearHist(0, 4, 4), 0, 1, 4
	}
	h.Add(x)
	hi := lo + w*float64(nb)
	vx.Assert((h.low == 1) == (x < lo), "under-flow exactly for x below the first edge (exact edges)")
	vx.Assert((h.high == 1) == (x >= hi), "over-flow exactly for x at or above the last edge (exact edges)")
	for i := 0; i < nb; i++ {
		a := lo + w*float64(i)
		vx.Assert((h.bins[i] == 1) == (x >= a && x < a+w), "bin i holds exactly the values in [edge i, edge i+1) (exact edges)")
	}
}

func vxNameN(p string, i int) string {
	return p + string(rune('a'+i))
}

// VxC14_LinearEdges: a value lands in the bin whose stated edges contain it, decided in the
// exact-real reading ("values within rounding distance of an edge may fall on either side" is
// thereby outside the decided part: the formula is shown to be algebraically the stated one).
//
//vx:jobs 1
//vx:mode R
//vx:solver z3
//vx:timeout 60000
//vx:bound nbins in {1,2,3,10} (quick) / 1..10,25,50 (thorough); any reals min < max and x
//vx:outside bins above 50; the float rounding of delta*(x-min) near an edge (exact-real reading)
func VxC14_LinearEdges() {
	var nb int
	if vx.Tier() == 0 {
		nb = []int{1, 2, 3, 10}[vx.Choose("nbsel", 0, 3)]
	} else {
		k := vx.Choose("nbsel", 0, 11)
		if k < 10 {
			nb = k + 1
		} else {
			nb = []int{25, 50}[k-10]
		}
	}
	min, max, x := vx.Float("min"), vx.Float("max"), vx.Float("x")
	vx.Assume(min < max)
	h := NewLinearHist(min, max, nb)
	h.Add(x)
	vx.Assert(vx.Close(h.BinToValue(0), min, 1e-9, 1e-12), "BinToValue(0) is min")
	vx.Assert(vx.Close(h.BinToValue(float64(nb)), max, 1e-9, 1e-12), "BinToValue(nbins) is max")
	switch {
	case h.low == 1:
		vx.Cover("under")
		vx.Assert(vx.Leq(x, h.BinToValue(0), 1e-9, 1e-12) && x != min || x < min, "under-flow only for values below the first edge")
	case h.high == 1:
		vx.Cover("over")
		vx.Assert(vx.Leq(h.BinToValue(float64(nb)), x, 1e-9, 1e-12), "over-flow only for values at or above the last edge")
	default:
		vx.Cover("binned")
		for i := 0; i < nb; i++ {
			if h.bins[i] == 1 {
				vx.Assert(vx.Leq(h.BinToValue(float64(i)), x, 1e-9, 1e-12), "a binned value is not below its bin's lower edge")
				vx.Assert(vx.Leq(x, h.BinToValue(float64(i+1)), 1e-9, 1e-12), "a binned value is not above its bin's upper edge")
				if vx.Real() {
					vx.Assert(x < h.BinToValue(float64(i+1)), "a binned value is strictly below its bin's upper edge (exact reading)")
				}
			}
		}
	}
}

// VxC14_LinearBinToValue: BinToValue is increasing and linear across fractional positions: any
// 0 <= b1 < b2 <= nbins give BinToValue(b1) < BinToValue(b2), and BinToValue(b) is min + b*(max-min)/nbins.
// C14: "BinToValue is increasing and interpolates within a bin, linearly for LinearHist".
//
//vx:mode R
//vx:solver z3
//vx:timeout 60000
//vx:bound nbins in {1,2,3,10} (quick) / 1..10,25,50 (thorough); any reals min < max and 0 <= b1 < b2 <= nbins
//vx:outside float rounding of bin/delta (exact-real reading)
func VxC14_LinearBinToValue() {
	var nb int
	if vx.Tier() == 0 {
		nb = []int{1, 2, 3, 10}[vx.Choose("nbsel", 0, 3)]
	} else {
		k := vx.Choose("nbsel", 0, 11)
		if k < 10 {
			nb = k + 1
		} else {
			nb = []int{25, 50}[k-10]
		}
	}
	min, max, b1, b2 := vx.Float("min"), vx.Float("max"), vx.Float("b1"), vx.Float("b2")
	vx.Assume(min < max)
	vx.Assume(vx.And(0 <= b1, b1 < b2))
	vx.Assume(b2 <= float64(nb))
	h := NewLinearHist(min, max, nb)
	v1, v2 := h.BinToValue(b1), h.BinToValue(b2)
	vx.Assert(v1 < v2 || (!vx.Real() && v1 != v2 && vx.Close(v1, v2, 1e-9, 1e-12)), "LinearHist.BinToValue is increasing")
	vx.Assert(vx.Close(v1, min+b1*(max-min)/float64(nb), 1e-9, 1e-12), "LinearHist.BinToValue interpolates linearly (lower point)")
	vx.Assert(vx.Close(v2, min+b2*(max-min)/float64(nb), 1e-9, 1e-12), "LinearHist.BinToValue interpolates linearly (upper point)")
}

// VxC14_LogBinToValue: LogHist.BinToValue is increasing, hits the powers of the base at whole
// multiples of m, and interpolates geometrically: the value at the midpoint of two positions is
// the geometric mean of their values (math.Pow read as the real power function through its contract).
// C14: "BinToValue is increasing and interpolates within a bin ... geometrically for LogHist".
//
//vx:mode R
//vx:solver z3
//vx:timeout 60000
//vx:bound base in {2,10}, m in {1,2,4} bins per power, max = 1000; any reals 0 <= b1 < b2 <= 64
//vx:outside float rounding of math.Pow; other bases and m
//vx:assume math.Pow(base, y) for constant base > 1 is the real power: positive, 1 at 0, base at 1, strictly increasing, (base^y)^2 = base^y1*base^y2 when 2y = y1+y2
func VxC14_LogBinToValue() {
	base := []int{2, 10}[vx.Choose("base", 0, 1)]
	m := []float64{1, 2, 4}[vx.Choose("m", 0, 2)]
	h := NewLogHist(base, m, 1000)
	b1, b2 := vx.Float("b1"), vx.Float("b2")
	vx.Assume(vx.And(0 <= b1, b1 < b2))
	vx.Assume(b2 <= 64)
	v1, v2, vm := h.BinToValue(b1), h.BinToValue(b2), h.BinToValue((b1+b2)/2)
	vx.Assert(v1 < v2 || (!vx.Real() && v1 != v2 && vx.Close(v1, v2, 1e-9, 1e-12)), "LogHist.BinToValue is increasing")
	vx.Assert(vx.Close(vm*vm, v1*v2, 1e-9, 1e-300), "LogHist.BinToValue interpolates geometrically (midpoint is the geometric mean)")
	vx.Assert(vx.Close(h.BinToValue(0), 1, 1e-12, 0), "LogHist.BinToValue(0) is 1")
	vx.Assert(vx.Close(h.BinToValue(m), float64(base), 1e-12, 0), "LogHist.BinToValue(m) is the base")
	vx.Assert(vx.Close(h.BinToValue(2*m), float64(base*base), 1e-12, 0), "LogHist.BinToValue(2m) is the base squared")
}

// VxC14_LogEdges: a positive value lands in the LogHist bin whose stated edges contain it - below
// the first edge in the under-flow, at or above the last in the over-flow - for any real x
// (math.Log read as a strictly increasing function anchored at the edges; floor as an integer witness).
// C14: "a value x lands in bin i exactly when BinToValue(i)<=x<BinToValue(i+1), in the under count when it is below the first
// bin and in the over count when it is at or above the end of the last bin (values within rounding distance of an edge may fall on either side)".
//
//vx:mode R
//vx:solver z3
//vx:timeout 60000
//vx:maxdec 100000
//vx:bound base in {2,10}, m in {1,2} bins per power, max = 1000 (10 or 20 bins for base 2; 3 or 6 for base 10); any real 1e-3 <= x <= 1e4; the bin index is case-split
//vx:assume math.Log is strictly increasing; math.Log of a constant is the native value
//vx:outside values within 1e-9 (relative) of an edge; accuracy of math.Log and math.Pow
func VxC14_LogEdges() {
	base := []int{2, 10}[vx.Choose("base", 0, 1)]
	m := []float64{1, 2}[vx.Choose("m", 0, 1)]
	h := NewLogHist(base, m, 1000)
	nb := len(h.bins)
	x := vx.Float("x")
	vx.Assume(vx.And(x >= 1e-3, x <= 1e4))
	lx := math.Log(x)
	vx.Assume(vx.And(lx >= math.Log(1e-3), lx <= math.Log(1e4)))
	// anchor the logarithm just inside and just outside every edge in reach
	lower := func(i int) float64 { return h.BinToValue(float64(i)) * (1 - 1e-9) }
	upper := func(i int) float64 { return h.BinToValue(float64(i)) * (1 + 1e-9) }
	for i := -int(10 * m); i <= nb+int(4*m); i++ {
		for _, e := range []float64{lower(i), upper(i)} {
			le := math.Log(e)
			vx.Assume(vx.And(vx.Implies(x < e, lx < le), vx.Implies(x > e, lx > le)))
			vx.Assume(vx.Implies(x == e, lx == le))
		}
	}
	bin := vx.Concretize(h.bin(x))
	h.Add(x)
	switch {
	case bin < 0:
		vx.Cover("under")
		vx.Assert(h.low == 1 && h.high == 0, "a value with a negative bin index is counted as under-flow")
		vx.Assert(x < upper(0), "under-flow only for values below the first edge")
	case bin >= nb:
		vx.Cover("over")
		vx.Assert(h.high == 1 && h.low == 0, "a value beyond the last bin is counted as over-flow")
		vx.Assert(x > lower(nb), "over-flow only for values at or above the last edge")
	default:
		vx.Cover("binned")
		vx.Assert(h.bins[bin] == 1 && h.low == 0 && h.high == 0, "exactly the indexed counter is incremented")
		vx.Assert(x > lower(bin), "a binned value is not below its bin's lower edge")
		vx.Assert(x < upper(bin+1), "a binned value is below its bin's upper edge")
	}
}

// VxC14_LogSpecialValues: zero, negative, NaN, infinite, tiny and huge values are counted exactly
// once by LogHist too (concrete x through the real bin(); counters symbolic), and non-positive
// values - which lie below every bin - go to the under-flow counter.
// C14: "Every Add to a LinearHist or LogHist increments exactly one counter ... in the under count when it is below the first bin".
//
//vx:solver z3-new
//vx:bound x in {0, -0, -1, -1e300, -Inf, NaN, +Inf, 1e-300, 0.75, 1, 3, 1e300}; base 2, 1 bin per power, 4 bins; counters symbolic
func VxC14_LogSpecialValues() {
	xs := []float64{0, math.Copysign(0, -1), -1, -1e300, math.Inf(-1), math.NaN(), math.Inf(1), 1e-300, 0.75, 1, 3, 1e300}
	k := vx.Choose("x", 0, len(xs)-1)
	x := xs[k]
	h := NewLogHist(2, 1, 16)
	h.low, h.high = vx.Uint("low"), vx.Uint("high")
	nb := len(h.bins)
	old := make([]uint, nb)
	for i := range h.bins {
		h.bins[i] = vx.Uint(vxNameN("bin", i))
		old[i] = h.bins[i]
	}
	low0, high0 := h.low, h.high
	h.Add(x)
	inc := vx.IteInt(h.low == low0+1, 1, 0) + vx.IteInt(h.high == high0+1, 1, 0)
	same := vx.IteInt(h.low == low0, 1, 0) + vx.IteInt(h.high == high0, 1, 0)
	for i := range h.bins {
		inc += vx.IteInt(h.bins[i] == old[i]+1, 1, 0)
		same += vx.IteInt(h.bins[i] == old[i], 1, 0)
	}
	vx.Assert(inc == 1 && same == nb+1, "LogHist.Add increments exactly one counter (special values)")
	if x <= 0 || (x > 0 && x < 1) {
		vx.Assert(h.low == low0+1, "values below the first bin (all values below 1, zero and negatives included) count as under-flow")
	}
	if x >= 16 && !math.IsInf(x, 1) {
		vx.Assert(h.high == high0+1, "values at or above the last edge count as over-flow")
	}
}

// vxExpected: the rank-g quantile of an identity-binned histogram under the 0-based (base=0) or
// 1-based (base=1) reading of "the g-th smallest sample": NaN in the under/over-flow, otherwise
// bin + (rank within bin)/count. ok=false where the reading names no sample (1-based, g=0).
func vxExpected(h vxIdHist, total, g uint, base uint) (val float64, ok bool) {
	if g < base {
		return 0, false
	}
	idx := g - base // 0-based index of the sample the reading names
	if idx >= total {
		return 0, false
	}
	if idx < h.under || idx >= total-h.over {
		return math.NaN(), true
	}
	r := g - h.under // rank offset carried into the bins (0-based: index; 1-based: count)
	for b, c := range h.counts {
		if (base == 0 && r < c) || (base == 1 && r <= c) {
			return float64(b) + float64(r)/float64(c), true
		}
		r -= c
	}
	return math.NaN(), true
}

func vxSame(a, b float64) bool { return a == b || (math.IsNaN(a) && math.IsNaN(b)) }

// VxC14_QuantileConsistent: whichever of the two readings of "the floor(q*total)-th smallest sample"
// (ranks from 0 or from 1) an implementation follows, it follows it for every q: for any two
// levels q1 <= q2 both results agree with the same reading, interpolated by rank within the bin.
// C14: "returns a value inside the bin holding that sample, interpolated by rank within the bin; it returns NaN when that
// sample is in the under- or over-flow".
//
//vx:mode R
//vx:solver z3
//vx:maxdec 100000
//vx:bound 1..3 bins, counters 0..1 (quick) / 0..2 (thorough), under/over 0..1; any reals 0 <= q1 <= q2 <= 1 (the solver partitions [0,1]^2 into pairs of rank classes)
func VxC14_QuantileConsistent() {
	h, _, total := vxSmallHist(3, 1+vx.Tier(), 1)
	q, q2 := vx.Float("q"), vx.Float("q2")
	vx.Assume(vx.And(q >= 0, q <= q2))
	vx.Assume(q2 <= 1)
	g := uint(vx.Concretize(int(uint(float64(total) * q))))
	g2 := uint(vx.Concretize(int(uint(float64(total) * q2))))
	if g >= total || g2 >= total {
		return // rank = total names no sample in either reading: only "no panic" is required (VxC14_QuantileValue)
	}
	var got, got2 float64
	if vx.Panics(func() {
		got = HistogramQuantile(h, (float64(g)+0.5)/float64(total))
		got2 = HistogramQuantile(h, (float64(g2)+0.5)/float64(total))
	}) {
		vx.Assert(false, "HistogramQuantile does not panic for q in [0,1]")
		return
	}
	a0, ok0 := vxExpected(h, total, g, 0)
	b0, ok0b := vxExpected(h, total, g2, 0)
	a1, ok1 := vxExpected(h, total, g, 1)
	b1, ok1b := vxExpected(h, total, g2, 1)
	zero := (!ok0 || vxSame(got, a0)) && (!ok0b || vxSame(got2, b0))
	one := (!ok1 || vxSame(got, a1)) && (!ok1b || vxSame(got2, b1))
	vx.Assert(zero || one, "both quantiles follow the same reading of the rank (0-based or 1-based), interpolated by rank within the bin")
}

//go:build verif

package stats

import (
	"math"

	"github.com/aclements/go-moremath/internal/vx"
)

// VxC12_Epanechnikov: the kernel is a probability density and its cdf is its integral.
// C12: "PDF is non-negative, CDF is non-decreasing from 0 to 1, the integral of PDF over any interval equals the
// difference of CDF" - decided for the Epanechnikov kernel, whose integral over [a,b] is given exactly by Simpson's rule.
//
//vx:mode R
//vx:solver z3
//vx:timeout 60000
//vx:bound any reals h > 0, a <= b
//vx:outside the same statements for the Gaussian kernel (erfc/exp have no SMT theory)
func VxC12_Epanechnikov() {
	h := vx.Float("h")
	a, b := vx.Float("a"), vx.Float("b")
	vx.Assume(h > 0)
	vx.Assume(a <= b)
	k := epanechnikovKernel{h}
	m := (a + b) / 2
	p := k.pdfEach([]float64{a, m, b})
	c := k.cdfEach([]float64{a, b})
	vx.Assert(p[0] >= 0 && p[1] >= 0 && p[2] >= 0, "the kernel density is non-negative")
	vx.Assert(c[0] >= 0 && c[1] <= 1 && vx.Leq(c[0], c[1], 1e-12, 1e-12), "the kernel cdf is non-decreasing with values in [0,1]")
	if a <= -h {
		vx.Assert(c[0] == 0 && p[0] == 0, "no mass at or below -h")
	}
	if b >= h {
		vx.Assert(vx.Close(c[1], 1, 1e-12, 0) && p[2] == 0, "all mass at or below h")
	}
	if a >= -h && b <= h {
		vx.Cover("inside-support")
		// Simpson's rule is exact for the quadratic density
		vx.Assert(vx.Close((b-a)/6*(p[0]+4*p[1]+p[2]), c[1]-c[0], 1e-9, 1e-12), "the integral of the density over [a,b] is the difference of the cdf")
	}
}

// vxKernelPDF / vxKernelCDF: the kernel centred at 0 evaluated at u, through the kernel's own
// vectorised evaluation on a singleton. (The Epanechnikov formulas themselves are the subject of
// VxC12_Epanechnikov; the Gaussian ones have no SMT theory. What is decided here is the averaging.)
func vxKernelPDF(kernel KDEKernel, h, u float64) float64 {
	switch kernel {
	case EpanechnikovKernel:
		return epanechnikovKernel{h}.pdfEach([]float64{u})[0]
	case GaussianKernel:
		return NormalDist{0, h}.pdfEach([]float64{u})[0]
	}
	return DeltaDist{0}.PDF(u)
}

func vxKernelCDF(kernel KDEKernel, h, u float64) float64 {
	switch kernel {
	case EpanechnikovKernel:
		return epanechnikovKernel{h}.cdfEach([]float64{u})[0]
	case GaussianKernel:
		return NormalDist{0, h}.cdfEach([]float64{u})[0]
	}
	if u >= 0 {
		return 1
	}
	return 0
}

func vxKDE(n int, kernel KDEKernel) (*KDE, []float64, []float64, float64) {
	xs := vx.Floats("x", n)
	var ws []float64
	wsum := float64(n)
	if vx.Choose("weighted", 0, 1) == 1 {
		ws = vx.Floats("w", n)
		wsum = 0
		for _, w := range ws {
			vx.Assume(w > 0)
			wsum += w
		}
	}
	h := vx.Float("h")
	vx.Assume(h > 0)
	return &KDE{Sample: Sample{Xs: xs, Weights: ws}, Kernel: kernel, Bandwidth: h}, xs, ws, wsum
}

func vxW(ws []float64, i int) float64 {
	if ws == nil {
		return 1
	}
	return ws[i]
}

// VxC12_Unbounded: without boundaries PDF and CDF are the weighted average of the kernel centred at
// each sample value (all three kernels; for the delta kernel CDF is the weighted empirical CDF).
//
//vx:mode R
//vx:solver z3
//vx:timeout 60000
//vx:maxdec 100000
//vx:bound n = 1..2 (quick) / 1..3 (thorough) sample values, optional positive weights, any reals; kernels Epanechnikov, Gaussian (exp/erfc uninterpreted: congruence only), Delta; bandwidth h > 0
func VxC12_Unbounded() {
	n := vx.Choose("n", 1, 2+vx.Tier())
	kernel := KDEKernel(vx.Choose("kernel", 0, 2))
	kde, xs, ws, wsum := vxKDE(n, kernel)
	x := vx.Float("x")
	vx.Freeze(xs, ws)
	pdf, cdf := kde.PDF(x), kde.CDF(x)
	vx.Thaw()
	rp, rc := 0.0, 0.0
	for i := range xs {
		rp += vxW(ws, i) * vxKernelPDF(kernel, kde.Bandwidth, x-xs[i])
		rc += vxW(ws, i) * vxKernelCDF(kernel, kde.Bandwidth, x-xs[i])
	}
	if kernel != DeltaKernel {
		vx.Assert(vx.Close(pdf*wsum, rp, 1e-9, 1e-12), "PDF is the weighted average of the kernel density centred at each sample value")
	}
	vx.Assert(vx.Close(cdf*wsum, rc, 1e-9, 1e-12), "CDF is the weighted average of the kernel cdf centred at each sample value")
}

// VxC12_HalfBounded: with one boundary the density is the unbounded one folded back at it.
// C12: "with boundaries the density vanishes outside [BoundaryMin,BoundaryMax), CDF is 0 at BoundaryMin and 1 from
// BoundaryMax, and inside the density is the unbounded one folded back at the boundaries".
//
//vx:mode R
//vx:solver z3
//vx:timeout 60000
//vx:maxdec 100000
//vx:bound n = 1..2 sample values, optional weights; Epanechnikov and Gaussian kernels; lower-only or upper-only boundary b (non-zero real); any real x
func VxC12_HalfBounded() {
	n := vx.Choose("n", 1, 2)
	kernel := KDEKernel(vx.Choose("kernel", 0, 1))
	kde, _, _, _ := vxKDE(n, kernel)
	b := vx.Float("b")
	vx.Assume(b != 0)
	lower := vx.Choose("lower", 0, 1) == 1
	free := *kde
	if lower {
		kde.BoundaryMin, kde.BoundaryMax = b, math.Inf(1)
	} else {
		kde.BoundaryMin, kde.BoundaryMax = math.Inf(-1), b
	}
	x := vx.Float("x")
	pdf, cdf := kde.PDF(x), kde.CDF(x)
	outside := (lower && x < b) || (!lower && x >= b)
	if outside {
		vx.Cover("outside")
		vx.Assert(pdf == 0, "the density vanishes outside the boundaries")
		if lower {
			vx.Assert(cdf == 0, "CDF is 0 below BoundaryMin")
		} else {
			vx.Assert(cdf == 1, "CDF is 1 from BoundaryMax")
		}
		return
	}
	vx.Cover("inside")
	vx.Assert(vx.Close(pdf, free.PDF(x)+free.PDF(2*b-x), 1e-9, 1e-12), "inside, the density is the unbounded one plus its mirror image at the boundary")
	if lower {
		vx.Assert(vx.Close(cdf, free.CDF(x)-free.CDF(2*b-x), 1e-9, 1e-12), "lower boundary: CDF(x) = F(x) - F(2b-x)")
	} else {
		vx.Assert(vx.Close(cdf, free.CDF(x)+1-free.CDF(2*b-x), 1e-9, 1e-12), "upper boundary: CDF(x) = F(x) + 1 - F(2b-x)")
	}
}

// VxC12_DoublyBounded: between two finite boundaries the density (and CDF) is the unbounded one
// folded back at both boundaries: the sum over the images p+nd and 2*min-p+nd of each sample value.
//
//vx:mode R
//vx:solver z3
//vx:timeout 60000
//vx:maxdec 100000
//vx:bound one sample value p in [min,max] and query min <= x < max symbolic (any reals); (min, max, h) in {(0,4,2), (-1,3,4), (2,5,0.5), (-6,0,2)} (bandwidths are powers of two so that 1/h is exact) - Epanechnikov kernel with h <= max-min, so that only the images p, 2*min-p, 2*max-p can contribute
//vx:outside more sample values; bandwidths above the boundary width; symbolic boundaries and bandwidth (the image series then forks beyond reach); the Gaussian kernel (its image series never terminates exactly)
func VxC12_DoublyBounded() {
	cfg := [][3]float64{{0, 4, 2}, {-1, 3, 4}, {2, 5, 0.5}, {-6, 0, 2}}[vx.Choose("cfg", 0, 3)]
	lo, hi, h := cfg[0], cfg[1], cfg[2]
	p, x := vx.Float("p"), vx.Float("x")
	vx.Assume(vx.And(lo <= p, p <= hi))
	vx.Assume(vx.And(lo <= x, x < hi))
	kde := &KDE{Sample: Sample{Xs: []float64{p}}, Kernel: EpanechnikovKernel, Bandwidth: h, BoundaryMin: lo, BoundaryMax: hi}
	free := &KDE{Sample: Sample{Xs: []float64{p}}, Kernel: EpanechnikovKernel, Bandwidth: h}
	pdf := kde.PDF(x)
	want := free.PDF(x) + free.PDF(2*lo-x) + free.PDF(2*hi-x)
	vx.Assert(vx.Close(pdf, want, 1e-9, 1e-12), "between two boundaries the density is the unbounded one folded back at both")
	cdf := kde.CDF(x)
	wantC := free.CDF(x) - free.CDF(2*lo-x) + (1 - free.CDF(2*hi-x))
	vx.Assert(vx.Close(cdf, wantC, 1e-9, 1e-12), "between two boundaries the CDF is folded the same way")
}

// VxC12_Guards: boundary guards bit-precisely, lazily filled bandwidth, unknown kernel / boundary method.
//
//vx:mode FP
//vx:solver cvc5
//vx:timeout 60000
//vx:bound one or two concrete sample values; any float64 x, min < max (not both zero)
func VxC12_Guards() {
	lo, hi, x := vx.Float("min"), vx.Float("max"), vx.Float("x")
	vx.Assume(lo < hi)
	vx.Assume(!math.IsNaN(x))
	vx.Assume(vx.Or(lo != 0, hi != 0))
	kde := &KDE{Sample: Sample{Xs: []float64{1, 2}}, Kernel: EpanechnikovKernel, Bandwidth: 0.5, BoundaryMin: lo, BoundaryMax: hi}
	if x < lo || x >= hi {
		vx.Cover("outside")
		vx.Assert(kde.PDF(x) == 0, "the density vanishes outside [BoundaryMin, BoundaryMax)")
		if x < lo {
			vx.Assert(kde.CDF(x) == 0, "CDF is 0 below BoundaryMin")
		} else {
			vx.Assert(kde.CDF(x) == 1, "CDF is 1 from BoundaryMax")
		}
	}
	bad := &KDE{Sample: Sample{Xs: []float64{1}}, Kernel: KDEKernel(7), Bandwidth: 1}
	vx.Assert(vx.Panics(func() { bad.PDF(0) }), "unknown kernel panics")
	bm := &KDE{Sample: Sample{Xs: []float64{1}}, Bandwidth: 1, BoundaryMethod: KDEBoundaryMethod(3), BoundaryMin: 0, BoundaryMax: 5}
	vx.Assert(vx.Panics(func() { bm.PDF(1) }), "unknown boundary method panics")
	// lazily filled bandwidth: Scott's rule on first use, then kept
	lz := &KDE{Sample: Sample{Xs: []float64{1, 2, 4, 8, 9}}}
	want := BandwidthScott(lz.Sample)
	lz.PDF(3)
	vx.Assert(lz.Bandwidth == want && want > 0, "a zero Bandwidth selects Scott's rule on first use")
	lz.Sample = Sample{Xs: []float64{100, 200}}
	lz.CDF(3)
	vx.Assert(lz.Bandwidth == want, "the selected bandwidth is kept")
}

type vxBWData struct{ sd, w, q25, q75 float64 }

func (d vxBWData) StdDev() float64 { return d.sd }
func (d vxBWData) Weight() float64 { return d.w }
func (d vxBWData) Quantile(q float64) float64 {
	if q == 0.25 {
		return d.q25
	}
	if q == 0.75 {
		return d.q75
	}
	return math.NaN()
}

// VxC12_Bandwidth: BandwidthScott and BandwidthSilverman are the stated formulas.
// C12: "BandwidthScott and BandwidthSilverman equal 1.06*min(s, IQR/1.349)*n^(-1/5) and 1.06*s*n^(-1/5)".
//
//vx:mode R
//vx:solver z3
//vx:bound any reals s >= 0, n > 0, q25 <= q75 (pow uninterpreted: congruence only)
func VxC12_Bandwidth() {
	d := vxBWData{sd: vx.Float("s"), w: vx.Float("n"), q25: vx.Float("q25"), q75: vx.Float("q75")}
	vx.Assume(vx.And(d.sd >= 0, d.w > 0))
	vx.Assume(d.q25 <= d.q75)
	pw := math.Pow(d.w, -1.0/5)
	vx.Assert(vx.Close(BandwidthSilverman(d), 1.06*d.sd*pw, 1e-12, 0), "Silverman: 1.06*s*n^(-1/5)")
	iqr := (d.q75 - d.q25) / 1.349
	m := vx.Ite(d.sd < iqr, d.sd, iqr)
	vx.Assert(vx.Close(BandwidthScott(d), 1.06*m*pw, 1e-12, 1e-15), "Scott: 1.06*min(s, IQR/1.349)*n^(-1/5)")
}

// VxC12_BoundsPoints: KDE.Bounds on concrete samples: a finite interval inside the boundaries that
// holds at least 98% of the mass, for each kernel and boundary configuration. Concrete evaluations
// carried by the interpreter (Bounds is two expansion loops and two bisections whose trip counts
// depend on the data: symbolic data would fork at every iteration) - no quantification is claimed.
// C12: "Bounds returns a finite interval inside the boundaries holding at least 98% of the mass".
//
//vx:mode FP
//vx:maxsteps 400000000
//vx:bound samples {0}, {1,2,4}, {-3,-3,5,100} (weights none or {1,2,3,..}), kernels Gaussian / Epanechnikov / delta, bandwidth 0.5 or 4, boundaries: none, [min-1, +Inf), (-Inf, max+0.5], [min-1, max+0.5]
//vx:outside every other sample (no quantification: concrete points only)
func VxC12_BoundsPoints() {
	data := [][]float64{{0}, {1, 2, 4}, {-3, -3, 5, 100}}[vx.Choose("data", 0, 2)]
	xs := append([]float64(nil), data...)
	var ws []float64
	if vx.Choose("weighted", 0, 1) == 1 {
		for i := range xs {
			ws = append(ws, float64(i+1))
		}
	}
	kernel := KDEKernel(vx.Choose("kernel", 0, 2))
	h := []float64{0.5, 4}[vx.Choose("h", 0, 1)]
	kde := &KDE{Sample: Sample{Xs: xs, Weights: ws}, Kernel: kernel, Bandwidth: h}
	lo, hi := data[0], data[0]
	for _, x := range data {
		lo, hi = math.Min(lo, x), math.Max(hi, x)
	}
	bmin, bmax := math.Inf(-1), math.Inf(1)
	switch vx.Choose("boundary", 0, 3) {
	case 1:
		kde.BoundaryMethod, bmin = BoundaryReflect, lo-1
	case 2:
		kde.BoundaryMethod, bmax = BoundaryReflect, hi+0.5
	case 3:
		kde.BoundaryMethod, bmin, bmax = BoundaryReflect, lo-1, hi+0.5
	}
	if kde.BoundaryMethod == BoundaryReflect {
		kde.BoundaryMin, kde.BoundaryMax = bmin, bmax
	}
	vx.Freeze(xs, ws)
	l, u := kde.Bounds()
	vx.Thaw()
	vx.Assert(!math.IsNaN(l) && !math.IsNaN(u) && !math.IsInf(l, 0) && !math.IsInf(u, 0) && l <= u, "Bounds returns a finite interval")
	vx.Assert(bmin <= l && u <= bmax, "Bounds lies inside the boundaries")
	below := kde.CDF(l)
	if kernel == DeltaKernel {
		below = kde.CDF(l - 1e-9) // atoms: the closed interval [l,u] includes a sample sitting on l
	}
	vx.Assert(kde.CDF(u)-below >= 0.98, "Bounds holds at least 98% of the mass")
}

//go:build verif

package scale

import (
	"math"

	"github.com/aclements/go-moremath/internal/vx"
)

func vxDomainFP() (min, max float64) {
	min, max = vx.Float("Min"), vx.Float("Max")
	vx.Assume(vx.And(math.Abs(min) >= 1e-12, math.Abs(min) <= 1e12))
	vx.Assume(vx.And(math.Abs(max) >= 1e-12, math.Abs(max) <= 1e12))
	return
}

// VxC16_LinearEnds: Map sends Min to 0 and Max to 1 exactly (bit-precise, one division).
// C16: "For a Linear scale with Min!=Max ... Map sends Min to 0 and Max to 1".
//
//vx:mode FP
//vx:solver cvc5
//vx:timeout 120000
//vx:bound all float64 Min != Max with 1e-12 <= |Min|,|Max| <= 1e12 (both orders, both signs)
func VxC16_LinearEnds() {
	min, max := vxDomainFP()
	vx.Assume(min != max)
	s := Linear{Min: min, Max: max}
	vx.Assert(s.Map(min) == 0, "Linear.Map(Min) == 0")
	vx.Assert(s.Map(max) == 1, "Linear.Map(Max) == 1")
}

// VxC16_LinearClampDegenerate: clamping confines Map to [0,1] and leaves in-domain values alone;
// a degenerate domain maps everything to 0.5; SetClamp only sets the flag.
//
//vx:mode FP
//vx:solver cvc5
//vx:timeout 60000
//vx:bound any float64 Min, Max, x (NaN excluded for x)
func VxC16_LinearClampDegenerate() {
	min, max, x := vx.Float("Min"), vx.Float("Max"), vx.Float("x")
	vx.Assume(!math.IsNaN(x) && !math.IsNaN(min) && !math.IsNaN(max))
	s := Linear{Min: min, Max: max}
	raw := s.Map(x)
	c := s
	c.SetClamp(true)
	vx.Assert(c.Clamp && vx.SameBits(c.Min, min) && vx.SameBits(c.Max, max) && c.Base == 0, "SetClamp only sets the flag")
	y := c.Map(x)
	if min == max {
		vx.Cover("degenerate")
		vx.Assert(raw == 0.5 && y == 0.5, "degenerate domain maps every input to 0.5")
		return
	}
	if math.IsNaN(raw) {
		return // Inf-Inf style inputs: outside "valid input"
	}
	vx.Assert(y >= 0 && y <= 1, "clamped Map is confined to [0,1]")
	if raw >= 0 && raw <= 1 {
		vx.Cover("inside")
		vx.Assert(vx.SameBits(y, raw) || (y == 0 && raw == 0), "clamping leaves in-range results unchanged")
	} else if raw < 0 {
		vx.Assert(y == 0, "below the domain clamps to 0")
	} else {
		vx.Assert(y == 1, "above the domain clamps to 1")
	}
}

// VxC16_LinearAffine: Map is affine and strictly monotone, Unmap is its inverse on and beyond
// the domain (exact-real reading).
//
//vx:mode R
//vx:solver z3
//vx:bound any reals Min != Max (both orders), x1, x2, y
//vx:outside the float64 round-trip error of Unmap(Map(x))
func VxC16_LinearAffine() {
	min, max := vx.Float("Min"), vx.Float("Max")
	x1, x2, y := vx.Float("x1"), vx.Float("x2"), vx.Float("y")
	vx.Assume(min != max)
	s := Linear{Min: min, Max: max}
	vx.Assert(vx.Close(s.Map(min), 0, 0, 1e-12), "Map(Min) = 0")
	vx.Assert(vx.Close(s.Map(max), 1, 1e-12, 0), "Map(Max) = 1")
	vx.Assert(vx.Close(s.Map(x1)*(max-min), x1-min, 1e-9, 1e-9), "Map is affine: Map(x)*(Max-Min) = x-Min")
	vx.Assert(vx.Close(s.Unmap(s.Map(x1)), x1, 1e-9, 1e-9), "Unmap(Map(x)) = x")
	vx.Assert(vx.Close(s.Map(s.Unmap(y)), y, 1e-9, 1e-9), "Map(Unmap(y)) = y")
	if x1 < x2 {
		if min < max {
			vx.Cover("increasing")
			vx.Assert(vx.Leq(s.Map(x1), s.Map(x2), 1e-12, 1e-12), "increasing domain: Map is increasing")
			if vx.Real() {
				vx.Assert(s.Map(x1) < s.Map(x2), "increasing domain: Map is strictly increasing")
			}
		} else {
			vx.Cover("decreasing")
			vx.Assert(vx.Leq(s.Map(x2), s.Map(x1), 1e-12, 1e-12), "decreasing domain: Map is decreasing")
			if vx.Real() {
				vx.Assert(s.Map(x1) > s.Map(x2), "decreasing domain: Map is strictly decreasing")
			}
		}
	}
}

// VxC16_NewLog: NewLog accepts exactly the ranges that exclude zero with base >= 2.
// C16: "NewLog accepts exactly the finite ranges that exclude zero with base>=2 and otherwise returns a RangeErr".
//
//vx:mode FP
//vx:solver cvc5
//vx:bound any non-NaN float64 min, max; any int base
func VxC16_NewLog() {
	min, max, base := vx.Float("min"), vx.Float("max"), vx.Int("base")
	vx.Assume(!math.IsNaN(min) && !math.IsNaN(max))
	s, err := NewLog(min, max, base)
	lo, hi := vx.Ite(min > max, max, min), vx.Ite(min > max, min, max)
	bad := vx.Or(base <= 1, vx.And(lo <= 0, hi >= 0))
	if err != nil {
		vx.Cover("rejected")
		_, isRange := err.(RangeErr)
		vx.Assert(isRange, "the error is a RangeErr")
		vx.Assert(bad, "NewLog rejects only base <= 1 or a range that includes zero")
	} else {
		vx.Cover("accepted")
		vx.Assert(!bad, "NewLog accepts only base >= 2 and a range that excludes zero")
		vx.Assert(s.Min == lo && s.Max == hi && s.Base == base && !s.Clamp, "NewLog stores the ordered range and the base")
	}
}

// VxC16_LogGuards: Log.Map is NaN for zero and for values of the wrong sign, 0.5 on a
// degenerate domain, and clamping confines it to [0,1] (log uninterpreted).
//
//vx:mode FP
//vx:solver cvc5
//vx:timeout 60000
//vx:bound positive and negative domains with 1e-12 <= |Min| <= |Max| <= 1e12; any non-NaN x
func VxC16_LogGuards() {
	lo, hi, x := vx.Float("lo"), vx.Float("hi"), vx.Float("x")
	vx.Assume(vx.And(lo >= 1e-12, hi <= 1e12))
	vx.Assume(lo <= hi)
	vx.Assume(!math.IsNaN(x))
	neg := vx.Choose("negative", 0, 1) == 1
	s, err := NewLog(lo, hi, 10)
	if neg {
		s, err = NewLog(-hi, -lo, 10)
	}
	vx.Assume(err == nil)
	y := s.Map(x)
	wrong := x == 0 || (neg && x > 0) || (!neg && x < 0)
	if wrong {
		vx.Cover("wrong-sign")
		vx.Assert(math.IsNaN(y), "Log.Map is NaN for zero and for values of the wrong sign")
		return
	}
	if lo == hi {
		vx.Cover("degenerate")
		vx.Assert(y == 0.5, "degenerate Log domain maps every valid input to 0.5")
		return
	}
	s.SetClamp(true)
	yc := s.Map(x)
	if !math.IsNaN(y) {
		vx.Assert(yc >= 0 && yc <= 1, "clamped Log.Map is confined to [0,1]")
		if y >= 0 && y <= 1 {
			vx.Assert(yc == y, "clamping leaves in-range results unchanged")
		}
	}
}

// VxC16_LogAffine: Map(Min)=0, Map(Max)=1, affine in log|x|, strictly monotone, clamping
// (exact-real reading; log and exp uninterpreted with: strictly increasing, exp(log x)=x).
//
//vx:mode R
//vx:solver z3
//vx:bound positive and negative, increasing and decreasing (Min beyond Max, set through the fields) domains, any reals 0 < lo < hi, x1, x2 of the right sign, y
//vx:assume log/exp contract: strictly increasing, log 1 = 0, exp(log x) = x and log(exp t) = t on occurring terms
//vx:outside accuracy of math.Log/Exp; float64 round-trip error
func VxC16_LogAffine() {
	lo, hi := vx.Float("lo"), vx.Float("hi")
	x1, x2 := vx.Float("x1"), vx.Float("x2")
	vx.Assume(vx.And(lo > 0, lo < hi))
	vx.Assume(vx.And(x1 > 0, x2 > 0))
	neg := vx.Choose("negative", 0, 1) == 1
	s, err := NewLog(lo, hi, 10)
	sgn := 1.0
	if neg {
		s, err = NewLog(-hi, -lo, 10)
		sgn = -1
	}
	vx.Assume(err == nil)
	// a decreasing domain (Min beyond Max) can only be set through the exported fields
	dir := sgn
	if vx.Choose("decreasing", 0, 1) == 1 {
		s.Min, s.Max = s.Max, s.Min
		dir = -sgn
	}
	vx.Assert(vx.Close(s.Map(s.Min), 0, 0, 1e-9), "Log.Map(Min) = 0")
	vx.Assert(vx.Close(s.Map(s.Max), 1, 1e-9, 0), "Log.Map(Max) = 1")
	m1, m2 := s.Map(sgn*x1), s.Map(sgn*x2)
	// affine in log|x|
	vx.Assert(vx.Close(m1-m2, dir*(math.Log(x1)-math.Log(x2))/(math.Log(hi)-math.Log(lo)), 1e-9, 1e-9), "Log.Map is affine in log|x|")
	if x1 < x2 {
		if dir < 0 {
			vx.Assert(vx.Leq(m2, m1, 1e-9, 1e-9), "negative or decreasing domain: larger |x| maps lower")
		} else {
			vx.Assert(vx.Leq(m1, m2, 1e-9, 1e-9), "Map is increasing in |x| towards Max")
		}
		if vx.Real() {
			vx.Assert(m1 != m2, "Log.Map is strictly monotone")
		}
	}
	// clamping: confined to [0,1], unchanged inside the domain, the right end outside it
	sc := s
	sc.SetClamp(true)
	c1 := sc.Map(sgn * x1)
	vx.Assert(vx.Close(sc.Map(s.Min), 0, 0, 1e-9) && vx.Close(sc.Map(s.Max), 1, 1e-9, 0), "clamped Log.Map still sends Min to 0 and Max to 1")
	if x1 >= lo && x1 <= hi {
		vx.Cover("inside-domain")
		vx.Assert(vx.Close(c1, m1, 1e-9, 1e-9), "clamping leaves Log.Map unchanged inside the domain")
	} else {
		vx.Cover("outside-domain")
		beyondMax := (x1 > hi) == (dir > 0) // on the far side of Max
		if beyondMax {
			vx.Assert(c1 == 1, "beyond Max the clamped Log.Map is 1")
		} else {
			vx.Assert(c1 == 0, "before Min the clamped Log.Map is 0")
		}
	}
}

// VxC16_LogInverse: Unmap inverts Map on and beyond the domain (any x of the right sign, any y),
// for positive and negative, increasing and decreasing Log domains.
// C16: "Unmap is its inverse on and beyond the domain, for increasing, decreasing and negative domains".
//
//vx:mode R
//vx:solver z3
//vx:timeout 60000
//vx:bound positive and negative, increasing and decreasing (Min beyond Max, set through the fields) domains, any reals 0 < lo < hi, x of the right sign, y
//vx:assume log/exp contract: strictly increasing, log 1 = 0, exp(log x) = x and log(exp t) = t on occurring terms
//vx:outside accuracy of math.Log/Exp; float64 round-trip error
func VxC16_LogInverse() {
	lo, hi := vx.Float("lo"), vx.Float("hi")
	x1, y := vx.Float("x1"), vx.Float("y")
	vx.Assume(vx.And(lo > 0, lo < hi))
	vx.Assume(x1 > 0)
	sgn := 1.0
	s, err := NewLog(lo, hi, 10)
	if vx.Choose("negative", 0, 1) == 1 {
		s, err = NewLog(-hi, -lo, 10)
		sgn = -1
	}
	vx.Assume(err == nil)
	if vx.Choose("decreasing", 0, 1) == 1 {
		s.Min, s.Max = s.Max, s.Min
	}
	if vx.Choose("law", 0, 1) == 0 {
		vx.Assert(vx.Close(s.Unmap(s.Map(sgn*x1)), sgn*x1, 1e-9, 1e-9), "Log.Unmap(Map(x)) = x")
	} else {
		vx.Assert(vx.Close(s.Map(s.Unmap(y)), y, 1e-9, 1e-9), "Log.Map(Unmap(y)) = y")
	}
}

// VxC16_QQ: QQ.Map = Dest.Unmap o Src.Map, QQ.Unmap = Src.Unmap o Dest.Map, mutual inverses,
// for every pairing of Linear and Log.
//
//vx:mode R
//vx:solver z3
//vx:bound Linear domains any Min != Max; Log domains 0 < lo < hi; all four pairings
func VxC16_QQ() {
	mk := func(p string, log bool) Quantitative {
		a, b := vx.Float(p+".a"), vx.Float(p+".b")
		if log {
			vx.Assume(vx.And(a > 0, a < b))
			l, err := NewLog(a, b, 10)
			vx.Assume(err == nil)
			return &l
		}
		vx.Assume(a != b)
		return &Linear{Min: a, Max: b}
	}
	srcLog, dstLog := vx.Choose("srcLog", 0, 1) == 1, vx.Choose("dstLog", 0, 1) == 1
	src := mk("src", srcLog)
	dst := mk("dst", dstLog)
	q := QQ{Src: src, Dest: dst}
	x := vx.Float("x")
	vx.Assume(x > 0) // valid for Log sources too
	vx.Assert(vx.Close(q.Map(x), dst.Unmap(src.Map(x)), 1e-12, 1e-12), "QQ.Map = Dest.Unmap(Src.Map(x))")
	vx.Assert(vx.Close(q.Unmap(x), src.Unmap(dst.Map(x)), 1e-12, 1e-12), "QQ.Unmap = Src.Unmap(Dest.Map(x))")
	if !srcLog && !dstLog {
		// with a Log component the round trip follows from the two composition laws above and the
		// component inverse laws (VxC16_LinearAffine, VxC16_LogAffine); the direct query is beyond NRA+UF
		vx.Assert(vx.Close(q.Unmap(q.Map(x)), x, 1e-9, 1e-9), "QQ.Unmap(QQ.Map(x)) = x")
	}
}

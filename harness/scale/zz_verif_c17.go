//go:build verif

package scale

import (
	"math"

	"github.com/aclements/go-moremath/internal/vx"
)

// vxTicker is a ticker whose count function is an arbitrary non-increasing function on a
// window of levels [lo, lo+len(counts)-1], constant outside it.
type vxTicker struct {
	lo     int
	counts []int
}

func (t vxTicker) CountTicks(level int) int {
	i := level - t.lo
	if i < 0 {
		i = 0
	}
	if i >= len(t.counts) {
		i = len(t.counts) - 1
	}
	return t.counts[i]
}
func (t vxTicker) TicksAtLevel(level int) interface{} { return nil }

func vxMonotoneTicker(w int) vxTicker {
	t := vxTicker{lo: -w, counts: make([]int, 2*w+1)}
	for i := range t.counts {
		t.counts[i] = vx.IntI("count", i)
		vx.Assume(vx.And(t.counts[i] >= 0, t.counts[i] <= 1<<31))
		if i > 0 {
			vx.Assume(t.counts[i-1] >= t.counts[i])
		}
	}
	return t
}

// VxC17_FindLevelWindow: FindLevel returns the lowest level in [MinLevel,MaxLevel] whose count is
// at most Max, for an arbitrary non-increasing count function and an arbitrary int64 guess.
// C17: "FindLevel returns the lowest level within [MinLevel,MaxLevel] whose tick count is at most Max for any ticker
// with non-increasing counts and any starting guess, and reports failure exactly when no such level exists."
//
//vx:solver z3-new
//vx:maxdec 400
//vx:bound level window [-3,3] (quick) / [-6,6] (thorough); counts an arbitrary non-increasing vector in [0,2^31]; Max, guess any int64; MinLevel, MaxLevel any pair in the window (not both 0)
//vx:outside level windows wider than 13 levels (FindLevel's loops fork once per level)
func VxC17_FindLevelWindow() {
	w := 3 + 3*vx.Tier()
	t := vxMonotoneTicker(w)
	o := TickOptions{Max: vx.Int("Max"), MinLevel: vx.Int("MinLevel"), MaxLevel: vx.Int("MaxLevel")}
	vx.Assume(vx.And(o.MinLevel >= -w, o.MinLevel <= w))
	vx.Assume(vx.And(o.MaxLevel >= -w, o.MaxLevel <= w))
	vx.Assume(!vx.And(o.MinLevel == 0, o.MaxLevel == 0))
	guess := vx.Int("guess")
	l, ok := o.FindLevel(t, guess)
	if o.Max < 1 {
		vx.Cover("max-below-one")
		vx.Assert(!ok && l == 0, "Max < 1: FindLevel reports failure as documented")
		return
	}
	// reference: least level in range with count <= Max, as one term
	best, exists := 0, false
	for lv := w; lv >= -w; lv-- {
		hit := vx.And(vx.And(lv >= o.MinLevel, lv <= o.MaxLevel), t.counts[lv+w] <= o.Max)
		best = vx.IteInt(hit, lv, best)
		exists = vx.Or(exists, hit)
	}
	if ok {
		vx.Cover("found")
	} else {
		vx.Cover("not-found")
	}
	vx.Assert(ok == exists, "FindLevel reports failure exactly when no level in range has few enough ticks")
	vx.Assert(!ok || l == best, "FindLevel returns the lowest level in range whose count is at most Max")
	vx.Assert(ok || l == 0, "failure returns level 0")
}

// VxC17_FindLevelNoLimit: MinLevel == MaxLevel == 0 means levels -1000..1000.
//
//vx:solver z3-new
//vx:maxdec 400
//vx:bound count function arbitrary non-increasing on [-3,3] ([-5,5] thorough), constant outside; guess in {window +-2, +-999, +-1000, +-1001, min/max int64}; Max any int64
func VxC17_FindLevelNoLimit() {
	w := 3 + 2*vx.Tier()
	t := vxMonotoneTicker(w)
	o := TickOptions{Max: vx.Int("Max")}
	vx.Assume(o.Max >= 1)
	gs := []int{-1 << 63, -1001, -1000, -999, 999, 1000, 1001, 1<<63 - 1}
	var guess int
	k := vx.Choose("guess", 0, len(gs)+2*w+4)
	if k < len(gs) {
		guess = gs[k]
	} else {
		guess = k - len(gs) - w - 2
	}
	l, ok := o.FindLevel(t, guess)
	// reference over -1000..1000 with the count constant outside the window
	first, last := t.counts[0], t.counts[2*w]
	best, exists := 0, false
	if last <= o.Max {
		best, exists = w, true // some level at or above w qualifies; refine below
	}
	for lv := w; lv >= -w; lv-- {
		hit := t.counts[lv+w] <= o.Max
		best = vx.IteInt(hit, lv, best)
		exists = vx.Or(exists, hit)
	}
	if first <= o.Max {
		best = -1000
	}
	vx.Assert(ok == exists, "no limits: failure exactly when no level in -1000..1000 qualifies")
	vx.Assert(!ok || l == best, "no limits: lowest qualifying level in -1000..1000")
}

// VxC17_NiceStaysFinite: Nice never makes the domain non-finite and never shrinks it, even when
// the only level with few enough ticks is the one whose spacing overflows.
// C17: "Nice never shrinks the domain or makes it non-finite".
//
//vx:mode FP
//vx:solver cvc5
//vx:timeout 60000
//vx:stub scale.(*Linear).guessLevel = vxGuess612
//vx:bound Min < 0 < Max with 1e-3 <= |Min|,|Max| <= 1e6; TickOptions.Max in {1,2}; Base 0 (10); level search started at 612 (FindLevel's result does not depend on the guess: VxC17_FindLevel*)
func VxC17_NiceStaysFinite() {
	s := &Linear{Min: vx.Float("Min"), Max: vx.Float("Max")}
	vx.Assume(vx.And(s.Min <= -1e-3, s.Min >= -1e6))
	vx.Assume(vx.And(s.Max >= 1e-3, s.Max <= 1e6))
	min0, max0 := s.Min, s.Max
	o := TickOptions{Max: vx.Choose("Max", 1, 2)}
	s.Nice(o)
	vx.Assert(!math.IsNaN(s.Min) && !math.IsInf(s.Min, 0), "Nice keeps Min finite")
	vx.Assert(!math.IsNaN(s.Max) && !math.IsInf(s.Max, 0), "Nice keeps Max finite")
	vx.Assert(s.Min <= min0 && s.Max >= max0, "Nice never shrinks the domain")
}

func vxGuess600(s *Linear) int { return 600 }

func vxGuess612(s *Linear) int { return 612 }

// vxFindLevelHigh stands for FindLevel when no level with finite spacing has few enough ticks
// (TickOptions.Max == 1 on a non-degenerate domain): it then returns the first level whose
// spacing overflowed. The levels tried here all have base^(2^level) = +Inf.
func vxFindLevelHigh(o *TickOptions, t Ticker, guess int) (int, bool) {
	return vx.Choose("level", 9, 11), true
}

// VxC17_LogNiceStaysFinite: the same for Log.Nice (log is an uninterpreted function, finite on
// positive finite arguments; constants are propagated through math.Pow with the solver's help).
//
//vx:mode FP
//vx:solver cvc5
//vx:timeout 60000
//vx:stub scale.(*TickOptions).FindLevel = vxFindLevelHigh
//vx:bound 1e-3 <= Min < Max <= 1e6 or the mirrored negative domain; TickOptions.Max = 1; Base 10; FindLevel replaced by "returns a level in 9..11" (the levels it does return for Max=1, where base^(2^level) overflows)
//vx:assume math.Log returns a finite value for positive finite arguments (contract of the uninterpreted log)
func VxC17_LogNiceStaysFinite() {
	lo, hi := vx.Float("Min"), vx.Float("Max")
	vx.Assume(vx.And(lo >= 1e-3, hi <= 1e6))
	vx.Assume(lo < hi)
	s, err := NewLog(lo, hi, 10)
	if vx.Choose("negative", 0, 1) == 1 {
		s, err = NewLog(-hi, -lo, 10)
	}
	vx.Assert(err == nil, "NewLog accepts a range excluding zero")
	min0, max0 := s.Min, s.Max
	s.Nice(TickOptions{Max: 1})
	vx.Assert(!math.IsNaN(s.Min) && !math.IsInf(s.Min, 0) && !math.IsNaN(s.Max) && !math.IsInf(s.Max, 0), "Log.Nice keeps the domain finite")
	vx.Assert(s.Min <= min0 && s.Max >= max0, "Log.Nice never shrinks the domain")
}

//go:build verif

package scale

import (
	"math"

	"github.com/aclements/go-moremath/internal/vx"
)

// vxTicker is a ticker whose count function is an arbitrary non-increasing function on a
// window of levels [lo, lo+len(counts)-1], constant outside it.
type vxTicker struct {
	lo     int
	counts []int
}

func (t vxTicker) CountTicks(level int) int {
	i := level - t.lo
	if i < 0 {
		i = 0
	}
	if i >= len(t.counts) {
		i = len(t.counts) - 1
	}
	return t.counts[i]
}
func (t vxTicker) TicksAtLevel(level int) interface{} { return nil }

func vxMonotoneTicker(w int) vxTicker {
	t := vxTicker{lo: -w, counts: make([]int, 2*w+1)}
	for i := range t.counts {
		t.counts[i] = vx.IntI("count", i)
		vx.Assume(vx.And(t.counts[i] >= 0, t.counts[i] <= 1<<31))
		if i > 0 {
			vx.Assume(t.counts[i-1] >= t.counts[i])
		}
	}
	return t
}

// VxC17_FindLevelWindow: FindLevel returns the lowest level in [MinLevel,MaxLevel] whose count is
// at most Max, for an arbitrary non-increasing count function and an arbitrary int64 guess.
// C17: "FindLevel returns the lowest level within [MinLevel,MaxLevel] whose tick count is at most Max for any ticker
// with non-increasing counts and any starting guess, and reports failure exactly when no such level exists."
//
//vx:solver z3-new
//vx:maxdec 400
//vx:bound level window [-3,3] (quick) / [-6,6] (thorough); counts an arbitrary non-increasing vector in [0,2^31]; Max, guess any int64; MinLevel, MaxLevel any pair in the window (not both 0)
//vx:outside level windows wider than 13 levels (FindLevel's loops fork once per level)
func VxC17_FindLevelWindow() {
	w := 3 + 3*vx.Tier()
	t := vxMonotoneTicker(w)
	o := TickOptions{Max: vx.Int("Max"), MinLevel: vx.Int("MinLevel"), MaxLevel: vx.Int("MaxLevel")}
	vx.Assume(vx.And(o.MinLevel >= -w, o.MinLevel <= w))
	vx.Assume(vx.And(o.MaxLevel >= -w, o.MaxLevel <= w))
	vx.Assume(!vx.And(o.MinLevel == 0, o.MaxLevel == 0))
	guess := vx.Int("guess")
	l, ok := o.FindLevel(t, guess)
	if o.Max < 1 {
		vx.Cover("max-below-one")
		vx.Assert(!ok && l == 0, "Max < 1: FindLevel reports failure as documented")
		return
	}
	// reference: least level in range with count <= Max, as one term
	best, exists := 0, false
	for lv := w; lv >= -w; lv-- {
		hit := vx.And(vx.And(lv >= o.MinLevel, lv <= o.MaxLevel), t.counts[lv+w] <= o.Max)
		best = vx.IteInt(hit, lv, best)
		exists = vx.Or(exists, hit)
	}
	if ok {
		vx.Cover("found")
	} else {
		vx.Cover("not-found")
	}
	vx.Assert(ok == exists, "FindLevel reports failure exactly when no level in range has few enough ticks")
	vx.Assert(!ok || l == best, "FindLevel returns the lowest level in range whose count is at most Max")
	vx.Assert(ok || l == 0, "failure returns level 0")
}

// VxC17_FindLevelNoLimit: MinLevel == MaxLevel == 0 means levels -1000..1000.
//
//vx:solver z3-new
//vx:maxdec 400
//vx:bound count function arbitrary non-increasing on [-3,3] ([-5,5] thorough), constant outside; guess in {window +-2, +-999, +-1000, +-1001, min/max int64}; Max any int64
func VxC17_FindLevelNoLimit() {
	w := 3 + 2*vx.Tier()
	t := vxMonotoneTicker(w)
	o := TickOptions{Max: vx.Int("Max")}
	vx.Assume(o.Max >= 1)
	gs := []int{-1 << 63, -1001, -1000, -999, 999, 1000, 1001, 1<<63 - 1}
	var guess int
	k := vx.Choose("guess", 0, len(gs)+2*w+4)
	if k < len(gs) {
		guess = gs[k]
	} else {
		guess = k - len(gs) - w - 2
	}
	l, ok := o.FindLevel(t, guess)
	// reference over -1000..1000 with the count constant outside the window
	first, last := t.counts[0], t.counts[2*w]
	best, exists := 0, false
	if last <= o.Max {
		best, exists = w, true // some level at or above w qualifies; refine below
	}
	for lv := w; lv >= -w; lv-- {
		hit := t.counts[lv+w] <= o.Max
		best = vx.IteInt(hit, lv, best)
		exists = vx.Or(exists, hit)
	}
	if first <= o.Max {
		best = -1000
	}
	vx.Assert(ok == exists, "no limits: failure exactly when no level in -1000..1000 qualifies")
	vx.Assert(!ok || l == best, "no limits: lowest qualifying level in -1000..1000")
}

// VxC17_NiceStaysFinite: Nice never makes the domain non-finite and never shrinks it, even when
// the only level with few enough ticks is the one whose spacing overflows.
// C17: "Nice never shrinks the domain or makes it non-finite".
//
//vx:mode FP
//vx:solver cvc5
//vx:timeout 60000
//vx:stub scale.(*Linear).guessLevel = vxGuess612
//vx:bound Min < 0 < Max with 1e-3 <= |Min|,|Max| <= 1e6; TickOptions.Max in {1,2}; Base 0 (10); level search started at 612 (FindLevel's result does not depend on the guess: VxC17_FindLevel*)
func VxC17_NiceStaysFinite() {
	s := &Linear{Min: vx.Float("Min"), Max: vx.Float("Max")}
	vx.Assume(vx.And(s.Min <= -1e-3, s.Min >= -1e6))
	vx.Assume(vx.And(s.Max >= 1e-3, s.Max <= 1e6))
	min0, max0 := s.Min, s.Max
	o := TickOptions{Max: vx.Choose("Max", 1, 2)}
	s.Nice(o)
	vx.Assert(!math.IsNaN(s.Min) && !math.IsInf(s.Min, 0), "Nice keeps Min finite")
	vx.Assert(!math.IsNaN(s.Max) && !math.IsInf(s.Max, 0), "Nice keeps Max finite")
	vx.Assert(s.Min <= min0 && s.Max >= max0, "Nice never shrinks the domain")
}

func vxGuess600(s *Linear) int { return 600 }

func vxGuess612(s *Linear) int { return 612 }

// vxFindLevelHigh stands for FindLevel when no level with finite spacing has few enough ticks
// (TickOptions.Max == 1 on a non-degenerate domain): it then returns the first level whose
// spacing overflowed. The levels tried here all have base^(2^level) = +Inf.
func vxFindLevelHigh(o *TickOptions, t Ticker, guess int) (int, bool) {
	return vx.Choose("level", 9, 11), true
}

// VxC17_LogNiceStaysFinite: the same for Log.Nice (log is an uninterpreted function, finite on
// positive finite arguments; constants are propagated through math.Pow with the solver's help).
//
//vx:mode FP
//vx:solver cvc5
//vx:timeout 60000
//vx:stub scale.(*TickOptions).FindLevel = vxFindLevelHigh
//vx:bound 1e-3 <= Min < Max <= 1e6 or the mirrored negative domain; TickOptions.Max = 1; Base 10; FindLevel replaced by "returns a level in 9..11" (the levels it does return for Max=1, where base^(2^level) overflows)
//vx:assume math.Log returns a finite value for positive finite arguments (contract of the uninterpreted log)
func VxC17_LogNiceStaysFinite() {
	lo, hi := vx.Float("Min"), vx.Float("Max")
	vx.Assume(vx.And(lo >= 1e-3, hi <= 1e6))
	vx.Assume(lo < hi)
	s, err := NewLog(lo, hi, 10)
	if vx.Choose("negative", 0, 1) == 1 {
		s, err = NewLog(-hi, -lo, 10)
	}
	vx.Assert(err == nil, "NewLog accepts a range excluding zero")
	min0, max0 := s.Min, s.Max
	s.Nice(TickOptions{Max: 1})
	vx.Assert(!math.IsNaN(s.Min) && !math.IsInf(s.Min, 0) && !math.IsNaN(s.Max) && !math.IsInf(s.Max, 0), "Log.Nice keeps the domain finite")
	vx.Assert(s.Min <= min0 && s.Max >= max0, "Log.Nice never shrinks the domain")
}

// vxPinnedLinear: a Linear scale with a symbolic domain a few tick spacings wide and TickOptions that
// pin the tick level (MinLevel == MaxLevel == level != 0), so that the real FindLevel runs but the
// level - hence the spacing, a power of the base evaluated natively - is a constant of the path.
func vxPinnedLinear(maxWidth float64) (s *Linear, o TickOptions, spacing float64) {
	base := []int{0, 2, 10}[vx.Choose("base", 0, 1+vx.Tier())]
	level := []int{-1, 1, 2, -2, -3, 3}[vx.Choose("level", 0, 2+3*vx.Tier())]
	if base != 2 && level < 0 {
		// negative powers of ten are not exact in float64 and the exact-real reading would compare 5*0.1 with 0.5;
		// decimal bases are exercised at levels whose spacings (1, 5, 10, 50, ...) are exact
		level = -level + 1
	}
	s = &Linear{Min: vx.Float("Min"), Max: vx.Float("Max"), Base: base}
	_, _, spacing = s.spacingAtLevel(level, true)
	// between a fifth of a spacing and maxWidth spacings wide, within 20 spacings of the origin
	vx.Assume(vx.And(s.Max-s.Min >= spacing/5, s.Max-s.Min <= maxWidth*spacing))
	vx.Assume(vx.And(s.Min >= -20*spacing, s.Max <= 20*spacing))
	o = TickOptions{Max: 1 << 30, MinLevel: level, MaxLevel: level}
	return
}

// VxC17_LinearSpacing: the tick spacing the pinned-level harnesses take from the library is itself a
// nice value by an independent reference: Base^floor(level/2) for an explicit base (10 included), and
// 10^floor(level/2), times 5 at odd levels, only for the default base (Base == 0).
// C17: "at nice values (integer multiples of a power of the base, or of 5 times a power of ten by default)".
// Base and level are case-split (math.Pow is evaluated on constants); the domain is symbolic and must
// not influence the spacing.
//
//vx:mode R
//vx:solver z3
//vx:bound Base in {0, 2, 3, 10}, level -4..5; domain any reals Min < Max
//vx:outside other bases and levels (the formula is the same code path)
func VxC17_LinearSpacing() {
	base := []int{0, 2, 3, 10}[vx.Choose("base", 0, 3)]
	level := vx.Choose("level", 0, 9) - 4
	s := &Linear{Min: vx.Float("Min"), Max: vx.Float("Max"), Base: base}
	vx.Assume(s.Min < s.Max)
	_, _, spacing := s.spacingAtLevel(level, vx.Choose("roundOut", 0, 1) == 1)
	eb := float64(base)
	if base == 0 {
		eb = 10
	}
	half := level / 2
	if level < 0 && level%2 != 0 {
		half--
	}
	want := math.Pow(eb, float64(half))
	if base == 0 && level%2 != 0 {
		want *= 5
	}
	vx.Assert(spacing == want, "the spacing at a level is a power of the base (times 5 at odd levels of the default base only)")
}

// VxC17_LinearNice: Nice never shrinks the domain (beyond the library's 1e-10 slack), moves each end
// by less than one spacing, is idempotent, and afterwards the first and last major ticks are the new ends.
// C17: "Nice never shrinks the domain or makes it non-finite, and for Max>=3 it is idempotent, adds at most one major
// tick spacing at each end, and afterwards the first and last major ticks equal the new Min and Max."
//
//vx:mode R
//vx:solver z3-new
//vx:maxdec 100000
//vx:stub scale.(*Linear).guessLevel = vxGuess0
//vx:bound Base in {0 (10), 2} and levels {-1, 1, 2} (quick) / Base in {0, 2, 10} and levels -3..3 except 0 (thorough), the level pinned through MinLevel == MaxLevel; domain any reals a fifth to three (ticks: two) spacings wide within 20 spacings of the origin; exact-real reading (floor/ceil as integer witnesses)
//vx:outside tick levels chosen by the count search (covered for arbitrary count functions by VxC17_FindLevel*); domains more than 20 spacings from the origin; float rounding of firstN*spacing
func VxC17_LinearNice() {
	s, o, spacing := vxPinnedLinear(3)
	min0, max0 := s.Min, s.Max
	slack := (max0 - min0) * 1e-10
	s.Nice(o)
	vx.Assert(vx.Leq(s.Min, min0+slack, 1e-12, 1e-12) && vx.Leq(max0-slack, s.Max, 1e-12, 1e-12), "Nice never shrinks the domain (beyond the 1e-10 slack)")
	vx.Assert(min0-s.Min < spacing+slack && s.Max-max0 < spacing+slack, "Nice adds less than one tick spacing at each end")
	min1, max1 := s.Min, s.Max
	s.Nice(o)
	vx.Assert(vx.Close(s.Min, min1, 1e-12, 1e-12) && vx.Close(s.Max, max1, 1e-12, 1e-12), "Nice is idempotent")
	major := s.TicksAtLevel(o.MinLevel).([]float64) // the major ticks Ticks(o) returns at this pinned level
	vx.Assert(len(major) >= 2, "a niced domain has a major tick at each end")
	if len(major) >= 2 {
		vx.Assert(vx.Close(major[0], min1, 1e-12, 1e-12) && vx.Close(major[len(major)-1], max1, 1e-12, 1e-12), "after Nice the first and last major ticks equal the new Min and Max")
	}
}

// VxC17_LinearTicks: ticks are ascending multiples of the spacing inside the domain, their number is
// CountTicks, every major tick is a minor tick, and coarser levels have no more ticks.
// C17: "Ticks returns ascending major and minor ticks inside the domain ... every major tick also a minor tick, at nice
// values ...; CountTicks(l) equals len(TicksAtLevel(l)) and is non-increasing in l."
//
//vx:mode R
//vx:solver z3
//vx:maxdec 100000
//vx:stub scale.(*Linear).guessLevel = vxGuess0
//vx:bound as VxC17_LinearNice; also Min > Max (swapped) and Min == Max
func VxC17_LinearTicks() {
	s, o, spacing := vxPinnedLinear(2)
	level := o.MinLevel
	lo, hi := s.Min, s.Max
	slack := (hi - lo) * 1e-10
	if vx.Choose("swapped", 0, 1) == 1 {
		s.Min, s.Max = hi, lo
	}
	major, minor := s.Ticks(o)
	t := Linear{Min: lo, Max: hi, Base: s.Base}
	vx.Assert(len(major) == t.CountTicks(level) && len(minor) == t.CountTicks(level-1), "CountTicks(l) == len(TicksAtLevel(l)); Ticks returns levels l and l-1")
	vx.Assert(len(minor) >= len(major), "the tick count is non-increasing in the level")
	for i, m := range major {
		vx.Assert(m >= lo-slack-1e-12 && m <= hi+slack+1e-12, "major ticks lie inside the domain")
		if i > 0 {
			vx.Assert(vx.Close(m-major[i-1], spacing, 1e-9, 1e-12), "consecutive major ticks are one spacing apart (ascending)")
		}
		k := math.Floor(m/spacing + 0.5)
		vx.Assert(vx.Close(k*spacing, m, 1e-9, 1e-12), "major ticks are integer multiples of the spacing")
		in := false
		for _, mi := range minor {
			in = vx.Or(in, vx.Close(mi, m, 1e-9, 1e-12))
		}
		vx.Assert(in, "every major tick is also a minor tick")
	}
	for i := 1; i < len(minor); i++ {
		vx.Assert(minor[i-1] < minor[i], "minor ticks ascend")
	}
	// degenerate and empty requests
	d := Linear{Min: lo, Max: lo}
	mj, mn := d.Ticks(o)
	vx.Assert(len(mj) == 1 && len(mn) == 1 && mj[0] == lo && mn[0] == lo, "Min == Max gives the single tick")
	mj, mn = t.Ticks(TickOptions{Max: 0})
	vx.Assert(mj == nil && mn == nil, "Max <= 0 gives no ticks")
}

// VxC17_LogNice: Log.Nice at a pinned level: the new ends are powers of the level's effective base
// that enclose the old domain, and the domain keeps its sign.
//
//vx:mode R
//vx:solver z3
//vx:maxdec 100000
//vx:bound Base 10 (levels 0..2: effective bases 10, 100, 10^4) and Base 2 (levels 1..3), level pinned through MinLevel == MaxLevel (level 0: no limits, TickOptions.Max large); positive and negative domains with 1e-6 <= |Min| < |Max| <= 1e6; log uninterpreted and strictly increasing; the integer tick indexes are case-split so that math.Pow is evaluated natively
//vx:assume math.Log is strictly increasing; math.Log of a constant is the native value
//vx:outside accuracy of math.Log/Pow (a 1e-9 relative slack is allowed, as the library's own slack is 1e-10 in log space)
func VxC17_LogNice() {
	base := []int{10, 2}[vx.Choose("base", 0, 1)]
	level := vx.Choose("level", 0, 2)
	if base == 2 {
		level++
	}
	lo, hi := vx.Float("lo"), vx.Float("hi")
	vx.Assume(vx.And(lo >= 1e-6, hi <= 1e6))
	vx.Assume(lo < hi)
	// anchor the uninterpreted logarithm at the ends of the box (true by monotonicity)
	vx.Assume(vx.And(math.Log(lo) >= math.Log(1e-6), math.Log(hi) <= math.Log(1e6)))
	vx.Assume(math.Log(lo) < math.Log(hi))
	neg := vx.Choose("negative", 0, 1) == 1
	s, err := NewLog(lo, hi, base)
	if neg {
		s, err = NewLog(-hi, -lo, base)
	}
	vx.Assume(err == nil)
	o := TickOptions{Max: 1 << 30, MinLevel: level, MaxLevel: level}
	// pin the integer tick indexes of this level (forks over the few feasible values)
	fn, ln, _ := s.spacingAtLevel(level, true)
	vx.Concretize(int(fn))
	vx.Concretize(int(ln))
	s.Nice(o)
	nlo, nhi := s.Min, s.Max
	if neg {
		nlo, nhi = -s.Max, -s.Min
		vx.Assert(s.Min < 0 && s.Max < 0, "a negative domain stays negative")
	} else {
		vx.Assert(s.Min > 0 && s.Max > 0, "a positive domain stays positive")
	}
	vx.Assert(vx.IsConcrete(nlo) && vx.IsConcrete(nhi), "the new ends are powers of the effective base with integer exponents")
	slack := 1e-9 * (math.Log(hi) - math.Log(lo) + 1)
	vx.Assert(math.Log(nlo) <= math.Log(lo)+slack, "Log.Nice does not raise the lower end (in magnitude)")
	vx.Assert(math.Log(nhi) >= math.Log(hi)-slack, "Log.Nice does not lower the upper end (in magnitude)")
}

// vxGuess0 replaces Linear.guessLevel (a logarithm of the domain width): FindLevel's result does not
// depend on its starting guess (VxC17_FindLevel*).
func vxGuess0(s *Linear) int { return 0 }

// VxC17_LogTicks: Log.Ticks at a pinned level: the major ticks are exactly the powers of the level's
// effective base inside the domain, ascending (negated and reversed for a negative domain); the minor
// ticks are the next finer level - for level 0 the multiples k*Base^n, k = 1..Base-1 - inside the
// domain; every major tick is a minor tick; CountTicks(l) = len(TicksAtLevel(l)) for l >= 0.
// C17: "Ticks returns ascending major and minor ticks inside the domain, ... every major tick also a minor tick, at nice values
// (... powers of the base for Log) ...; CountTicks(l) equals len(TicksAtLevel(l)) and is non-increasing in l."
//
//vx:mode R
//vx:solver z3
//vx:maxdec 200000
//vx:timeout 60000
//vx:bound Base 10 (levels 0..1) and Base 2 (levels 1..2), level pinned through MinLevel == MaxLevel; positive and negative domains with 1/64 <= |Min| < |Max| <= 64 (Base 10: 0.5..50 quick / 0.01..100 thorough); log uninterpreted and strictly increasing; the integer tick indexes are case-split so that math.Pow is evaluated natively
//vx:assume math.Log is strictly increasing; math.Log of a constant is the native value
//vx:outside accuracy of math.Log/Pow (ticks within 1e-9 of a domain end in log space may fall on either side, as the library's own slack is 1e-10 of the log-width); CountTicks at negative Log levels (not defined: it returns the largest int there)
func VxC17_LogTicks() {
	base := []int{10, 2}[vx.Choose("base", 0, 1)]
	level := vx.Choose("level", 0, 1)
	boxLo, boxHi := 0.5, 50.0
	if vx.Tier() == 1 {
		boxLo, boxHi = 0.01, 100
	}
	if base == 2 {
		level++
		boxLo, boxHi = 1.0/64, 64
	}
	lo, hi := vx.Float("lo"), vx.Float("hi")
	vx.Assume(vx.And(lo >= boxLo, hi <= boxHi))
	vx.Assume(lo < hi)
	vx.Assume(vx.And(math.Log(lo) >= math.Log(boxLo), math.Log(hi) <= math.Log(boxHi)))
	vx.Assume(math.Log(lo) < math.Log(hi))
	neg := vx.Choose("negative", 0, 1) == 1
	s, err := NewLog(lo, hi, base)
	if neg {
		s, err = NewLog(-hi, -lo, base)
	}
	vx.Assume(err == nil)
	o := TickOptions{Max: 1 << 30, MinLevel: level, MaxLevel: level}
	// pin the integer tick indexes of both levels (forks over the few feasible values)
	fn, ln, ebase := s.spacingAtLevel(level, false)
	vx.Concretize(int(fn))
	vx.Concretize(int(ln))
	if level >= 1 {
		f2, l2, _ := s.spacingAtLevel(level-1, false)
		vx.Concretize(int(f2))
		vx.Concretize(int(l2))
	} else {
		f2, l2, _ := s.spacingAtLevel(0, true)
		vx.Concretize(int(f2))
		vx.Concretize(int(l2))
	}
	major, minor := s.Ticks(o)
	vx.Assert(len(major) == s.CountTicks(level), "CountTicks(l) == len(TicksAtLevel(l)) at the major level")
	if level >= 1 {
		vx.Assert(len(minor) == s.CountTicks(level-1), "CountTicks(l-1) == len(TicksAtLevel(l-1))")
		vx.Assert(len(minor) >= len(major), "the tick count is non-increasing in the level")
	}
	abs := func(ts []float64) []float64 {
		out := make([]float64, len(ts))
		for i, t := range ts {
			if neg {
				out[len(ts)-1-i] = -t
			} else {
				out[i] = t
			}
		}
		return out
	}
	for i := 1; i < len(major); i++ {
		vx.Assert(major[i-1] < major[i], "major ticks ascend")
	}
	for i := 1; i < len(minor); i++ {
		vx.Assert(minor[i-1] < minor[i], "minor ticks ascend")
	}
	am, an := abs(major), abs(minor)
	slk := 1e-9 * (math.Log(hi) - math.Log(lo) + 1)
	llo, lhi := math.Log(lo), math.Log(hi)
	// anchor the uninterpreted logarithm at every candidate tick value (true by monotonicity): the
	// minor ticks are filtered by comparing values, the decades by comparing logarithms
	anchor := func(m float64) {
		lm := math.Log(m)
		vx.Assume(vx.And(vx.Implies(lo < m, llo < lm), vx.Implies(lo > m, llo > lm)))
		vx.Assume(vx.And(vx.Implies(hi < m, lhi < lm), vx.Implies(hi > m, lhi > lm)))
		vx.Assume(vx.And(vx.Implies(lo == m, llo == lm), vx.Implies(hi == m, lhi == lm)))
	}
	for n := -3; n <= 3 && level == 0; n++ {
		for k := 1; k < base; k++ {
			m := float64(k) * math.Pow(float64(base), float64(n))
			if m >= boxLo/2 && m <= boxHi*2 {
				anchor(m)
			}
		}
	}
	// majors: exactly the powers of the effective base inside the domain
	for n := -8; n <= 8; n++ {
		p := math.Pow(ebase, float64(n))
		if p < boxLo/2 || p > boxHi*2 {
			continue
		}
		in := false
		for _, t := range am {
			in = in || (vx.IsConcrete(t) && vx.Near(t, p, 1e-12, 0))
		}
		lp := math.Log(p)
		if in {
			vx.Assert(vx.And(lp >= llo-slk, lp <= lhi+slk), "major ticks lie inside the domain")
		} else {
			vx.Assert(!vx.And(lp >= llo+slk, lp <= lhi-slk), "every power of the effective base inside the domain is a major tick")
		}
	}
	for _, t := range am {
		vx.Assert(vx.IsConcrete(t), "major ticks are powers of the effective base with integer exponents")
		inMinor := false
		for _, u := range an {
			inMinor = inMinor || (vx.IsConcrete(u) && vx.Near(u, t, 1e-12, 0))
		}
		vx.Assert(inMinor, "every major tick is also a minor tick")
	}
	if level == 0 {
		// minors: k*Base^n inside the domain (the library compares the tick with Min and Max directly)
		for n := -3; n <= 3; n++ {
			for k := 1; k < base; k++ {
				m := float64(k) * math.Pow(float64(base), float64(n))
				if m < boxLo/2 || m > boxHi*2 {
					continue
				}
				in := false
				for _, u := range an {
					in = in || (vx.IsConcrete(u) && vx.Near(u, m, 1e-12, 0))
				}
				if in {
					inside := vx.And(m*(1+1e-12) >= lo, m*(1-1e-12) <= hi)
					if k == 1 {
						// a power of the base is admitted with the major ticks' slack
						lm := math.Log(m)
						inside = vx.Or(inside, vx.And(lm >= llo-slk, lm <= lhi+slk))
					}
					vx.Assert(inside, "minor ticks lie inside the domain")
				} else {
					vx.Assert(!vx.And(m*(1-1e-12) > lo, m*(1+1e-12) < hi), "every multiple k*Base^n inside the domain is a minor tick")
				}
			}
		}
		for _, u := range an {
			vx.Assert(vx.IsConcrete(u), "minor ticks are multiples of powers of the base")
		}
	}
}

// VxC17_TicksLevelLimits: Ticks honours TickOptions: it returns the ticks of the lowest level within
// [MinLevel, MaxLevel] (no limits when both are 0) whose count is at most Max, with the next finer
// level as minor ticks, and no ticks exactly when no such level exists - on fixed Linear and Log
// domains with symbolic options (the solver partitions Max by the tick counts of the levels).
// C17: "at most Max major ticks ... and at the finest level that fits"; "FindLevel returns the lowest level within
// [MinLevel,MaxLevel] whose tick count is at most Max ... and reports failure exactly when no such level exists".
//
//vx:mode R
//vx:solver z3
//vx:maxdec 100000
//vx:bound domains Linear [0,100], Log [1,1e8], Log [-1e8,-1] (base 10); TickOptions.Max any int in [1,20] (symbolic), MinLevel and MaxLevel each in -3..4 (case split; including MinLevel > MaxLevel and the unlimited pair 0,0)
//vx:outside symbolic domains together with symbolic options (VxC17_LinearTicks / VxC17_LogTicks pin the level instead)
func VxC17_TicksLevelLimits() {
	var sc interface {
		Ticks(TickOptions) ([]float64, []float64)
	}
	var tk Ticker
	switch vx.Choose("scale", 0, 2) {
	case 0:
		l := &Linear{Min: 0, Max: 100}
		sc, tk = l, l
	case 1:
		l, _ := NewLog(1, 1e8, 10)
		sc, tk = l, &l
	default:
		l, _ := NewLog(-1e8, -1, 10)
		sc, tk = l, &l
	}
	max := vx.Int("Max")
	vx.Assume(vx.And(max >= 1, max <= 20))
	minL, maxL := vx.Choose("MinLevel", -3, 4), vx.Choose("MaxLevel", -3, 4) // case split: the level enters math.Pow
	major, minor := sc.Ticks(TickOptions{Max: max, MinLevel: minL, MaxLevel: maxL})
	// reference: scan the levels upward
	lo, hi := minL, maxL
	if minL == 0 && maxL == 0 {
		lo, hi = -6, 12
	}
	best, found := 0, false
	for l := -6; l <= 12 && !found; l++ {
		if l < lo || l > hi {
			continue
		}
		if tk.CountTicks(l) <= max {
			best, found = l, true
		}
	}
	if !found {
		vx.Cover("none")
		vx.Assert(major == nil && minor == nil, "no ticks when no level in the window has at most Max ticks")
		return
	}
	vx.Cover("found")
	wantMajor := tk.TicksAtLevel(best).([]float64)
	wantMinor := tk.TicksAtLevel(best - 1).([]float64)
	vx.Assert(len(major) <= max, "at most Max major ticks")
	ok := len(major) == len(wantMajor) && len(minor) == len(wantMinor)
	for i := 0; ok && i < len(major); i++ {
		ok = major[i] == wantMajor[i]
	}
	for i := 0; ok && i < len(minor); i++ {
		ok = minor[i] == wantMinor[i]
	}
	vx.Assert(ok, "Ticks returns the lowest level in the window that fits, with the next finer level as minor ticks")
}

//go:build verif

package mathx

import (
	"math"

	"github.com/aclements/go-moremath/internal/vx"
)

// VxC08_Choose: Choose(n,k) for n <= 20 is the exact binomial coefficient (Pascal's rule), 0 outside
// 0..n, symmetric; the running product never overflows and the division is exact.
// C08: "Choose(n,k) is the binomial coefficient - exact for n<=20 ..., 0 for k<0 or k>n, symmetric in k and n-k -
// Lchoose is its logarithm (NaN out of range)".
//
//vx:solver z3-new
//vx:timeout 90000
//vx:maxdec 100000
//vx:bound every 0 <= n <= 20 (case split), k any int64 (symbolic)
//vx:outside n > 20 (exp of lgamma differences: no SMT theory)
func VxC08_Choose() {
	n := vx.Choose("n", 0, 20)
	k := vx.Int("k")
	c := Choose(n, k)
	lc := Lchoose(n, k)
	if k < 0 || k > n {
		vx.Cover("outside")
		vx.Assert(c == 0, "Choose is 0 for k < 0 or k > n")
		vx.Assert(math.IsNaN(lc), "Lchoose is NaN out of range")
		return
	}
	kk := vx.Concretize(k)
	// Pascal's triangle in exact integers
	row := []int64{1}
	for i := 1; i <= n; i++ {
		next := make([]int64, i+1)
		next[0], next[i] = 1, 1
		for j := 1; j < i; j++ {
			next[j] = row[j-1] + row[j]
		}
		row = next
	}
	vx.Assert(c == float64(row[kk]), "Choose(n,k) is the binomial coefficient exactly for n <= 20")
	vx.Assert(Choose(n, n-kk) == c, "Choose is symmetric in k and n-k")
	if kk == 0 || kk == n {
		vx.Assert(c == 1 && lc == 0, "Choose(n,0) = Choose(n,n) = 1, Lchoose 0")
	}
}

// VxC08_ChooseLarge: beyond the exact range Choose stays positive and symmetric for every n up to
// 1000 and every k (lgamma and exp uninterpreted: exp > 0, congruence), so an integer fast path that
// overflows, or a fold of k that loses the symmetry, shows up; the 1e-10 accuracy itself is outside.
// C08: "Choose(n,k) is the binomial coefficient - ... within 1e-10 relative up to n=1000, 0 for k<0 or k>n, symmetric in k and n-k".
//
//vx:mode R
//vx:solver z3
//vx:timeout 60000
//vx:bound any 21 <= n <= 1000 and any int k (symbolic)
//vx:outside the value of Choose for n > 20 (exp of lgamma differences: no SMT theory); n > 1000
//vx:assume exp > 0; lgamma, exp: congruence only
func VxC08_ChooseLarge() {
	n, k := vx.Int("n"), vx.Int("k")
	vx.Assume(vx.And(n >= 21, n <= 1000))
	c := Choose(n, k)
	if k < 0 || k > n {
		vx.Cover("outside")
		vx.Assert(c == 0, "Choose is 0 for k < 0 or k > n (n > 20)")
		vx.Assert(math.IsNaN(Lchoose(n, k)), "Lchoose is NaN out of range (n > 20)")
		return
	}
	vx.Assert(c > 0, "Choose(n,k) is positive for 0 <= k <= n")
	vx.Assert(vx.Close(Choose(n, n-k), c, 1e-10, 0), "Choose is symmetric in k and n-k (n > 20)")
	if k == 0 || k == n {
		vx.Assert(c == 1 && Lchoose(n, k) == 0, "Choose(n,0) = Choose(n,n) = 1, Lchoose 0 (n > 20)")
	} else {
		vx.Assert(vx.Close(math.Exp(Lchoose(n, k)), c, 1e-10, 0), "Lchoose is the logarithm of Choose (n > 20)")
	}
}

// VxC08_Sign: Sign returns -1, 0, 1 or NaN.
//
//vx:mode FP
//vx:solver cvc5
//vx:bound any float64
func VxC08_Sign() {
	x := vx.Float("x")
	s := Sign(x)
	switch {
	case math.IsNaN(x):
		vx.Assert(math.IsNaN(s), "Sign(NaN) is NaN")
	case x > 0:
		vx.Assert(s == 1, "Sign of a positive number is 1")
	case x < 0:
		vx.Assert(s == -1, "Sign of a negative number is -1")
	default:
		vx.Assert(s == 0, "Sign of +0 and -0 is 0")
	}
}

// VxC08_Guards: NaN guards and end points of the incomplete beta and gamma functions.
// C08: "is 0 at x=0 and 1 at x=1 ... NaN for x outside [0,1]; ... GammaInc and GammaIncComp ... are NaN for a<=0, x<0 or NaN arguments".
//
//vx:mode FP
//vx:solver cvc5
//vx:timeout 60000
//vx:bound any float64 arguments for the guards; a in [0.05,300] symbolic for GammaInc(a,0), GammaIncComp(a,0)
//vx:outside the values of BetaInc/GammaInc inside the domain (1e-9 accuracy, monotonicity, range, complement to 1e-9): no SMT theory for exp/log/lgamma
func VxC08_Guards() {
	x, a, b := vx.Float("x"), vx.Float("a"), vx.Float("b")
	if x < 0 || x > 1 {
		vx.Cover("beta-outside")
		vx.Assert(math.IsNaN(BetaInc(x, a, b)), "BetaInc is NaN for x outside [0,1]")
	}
	bad := a <= 0 || x < 0 || math.IsNaN(a) || math.IsNaN(x)
	if bad {
		vx.Cover("gamma-guard")
		vx.Assert(math.IsNaN(GammaInc(a, x)) && math.IsNaN(GammaIncComp(a, x)), "GammaInc and GammaIncComp are NaN for a <= 0, x < 0 or NaN arguments")
	}
	if a >= 0.05 && a <= 300 {
		vx.Cover("gamma-zero")
		vx.Assert(GammaInc(a, 0) == 0 && GammaIncComp(a, 0) == 1, "GammaInc(a,0) = 0 and GammaIncComp(a,0) = 1")
	}
}

// VxC08_GuardsSpecial: the NaN guards on special argument values, through the real series/continued
// fraction code (concrete arguments: the iteration runs to completion in the interpreter).
//
//vx:mode FP
//vx:solver cvc5
//vx:maxsteps 200000000
//vx:bound a in {NaN, -1, 0, 0.05, 1, 2.5, 300}, x in {NaN, -1, 0, 0.5, 3} (case split; evaluated on the real code)
func VxC08_GuardsSpecial() {
	as := []float64{math.NaN(), -1, 0, 0.05, 1, 2.5, 300}
	xs := []float64{math.NaN(), -1, 0, 0.5, 3}
	a := as[vx.Choose("a", 0, len(as)-1)]
	x := xs[vx.Choose("x", 0, len(xs)-1)]
	var g, gc, bi float64
	if vx.Panics(func() { g = GammaInc(a, x); gc = GammaIncComp(a, x) }) {
		vx.Assert(false, "GammaInc / GammaIncComp do not panic on NaN, negative or zero arguments")
		return
	}
	bad := a <= 0 || x < 0 || math.IsNaN(a) || math.IsNaN(x)
	vx.Assert(bad == math.IsNaN(g) && bad == math.IsNaN(gc), "GammaInc and GammaIncComp are NaN exactly for a <= 0, x < 0 or NaN arguments")
	if !bad {
		vx.Assert(math.Abs(g+gc-1) <= 1e-9, "GammaInc + GammaIncComp = 1")
	}
	if math.IsNaN(x) {
		return // the statement says nothing about BetaInc(NaN, a, b) (it does not converge and panics)
	}
	if vx.Panics(func() { bi = BetaInc(x, 2, 3) }) {
		vx.Assert(false, "BetaInc does not panic on special arguments")
		return
	}
	if x < 0 || x > 1 {
		vx.Assert(math.IsNaN(bi), "BetaInc is NaN outside [0,1]")
	} else if x == 0 {
		vx.Assert(bi == 0, "BetaInc(0) = 0")
	}
}

//go:build verif

package graph

import "github.com/aclements/go-moremath/internal/vx"

// VxC20_GraphPkg: Equal, MakeBiGraph, SubgraphKeep and SubgraphRemove leave the graphs handed to
// them untouched - including adjacency lists that are windows of one backing array (CSR layout, as
// SCC and SimplifyMulti results are), where an in-place append lands in the next list - write no
// package-level state, and give the same answer when repeated after unrelated calls.
// C20: "No function of the library modifies slices, Samples or graphs passed to it ... repeated calls with equal arguments
// return bit-identical results, whatever calls were made before."
//
//vx:solver z3-new
//vx:maxdec 100000
//vx:bound two graphs on 1..2 nodes (both tiers: with 3 nodes the run exceeded its 90-minute budget), out-degree <= 3, edge targets symbolic, CSR layout
func VxC20_GraphPkg() {
	n1 := vx.Choose("n1", 1, 2)
	n2 := vx.Choose("n2", 1, 2)
	g1 := vxIntGraph("a", n1, 3, false)
	g2 := vxIntGraph("b", n2, 3, false)
	for i := range g1 {
		vx.Freeze(g1[i])
	}
	for i := range g2 {
		vx.Freeze(g2[i])
	}
	vx.Epoch()
	e1 := Equal(g1, g2)
	noGlobals := vx.NoGlobalWrites()
	// unrelated calls in between
	bg := MakeBiGraph(g2)
	_ = bg.In(0)
	sub := SubgraphRemove(g2, []int{0}, nil)
	_ = sub.NumNodes()
	e2 := Equal(g1, g2)
	e3 := Equal(g2, g1)
	vx.Thaw()
	vx.Assert(e1 == e2, "Equal is deterministic across intervening calls")
	vx.Assert(e1 == e3, "Equal is symmetric")
	vx.Assert(noGlobals, "Equal writes no package-level state")
}

//go:build verif

package graphalg

import "github.com/aclements/go-moremath/internal/vx"

type vxWeighted struct {
	*vxGraph
	w [][]float64
}

func (g vxWeighted) OutWeight(i, e int) float64 { return g.w[i][e] }

// VxC18_SimplifyMulti: parallel edges are merged and their weights summed.
// C18: "SimplifyMulti merges parallel edges summing their weights".
//
//vx:mode R
//vx:solver z3
//vx:maxdec 100000
//vx:bound n <= 3 nodes, out-degree <= 2 (quick) / <= 3 (thorough), edge targets symbolic, weights arbitrary reals (or the unit weights of an unweighted graph)
func VxC18_SimplifyMulti() {
	n := vx.Choose("n", 1, 3)
	g := vxMakeGraph(n, 2+vx.Tier())
	weighted := vx.Choose("weighted", 0, 1) == 1
	w := make([][]float64, n)
	for i := range w {
		w[i] = make([]float64, len(g.adj[i]))
		for k := range w[i] {
			if weighted {
				w[i][k] = vx.Float(vxNm("w", i*8+k))
			} else {
				w[i][k] = 1
			}
		}
	}
	var s interface {
		NumNodes() int
		Out(int) []int
		OutWeight(int, int) float64
	}
	if weighted {
		s = SimplifyMulti(vxWeighted{g, w})
	} else {
		s = SimplifyMulti(g)
	}
	vx.Assert(s.NumNodes() == n, "same node count")
	for i := 0; i < n; i++ {
		out := s.Out(i)
		orig := g.Out(i)
		for t := 0; t < n; t++ {
			cnt, sum := 0, 0.0
			for k, o := range orig {
				if o == t {
					cnt++
					sum += w[i][k]
				}
			}
			have, hsum := 0, 0.0
			for k, o := range out {
				if o == t {
					have++
					hsum += s.OutWeight(i, k)
				}
			}
			if cnt == 0 {
				vx.Assert(have == 0, "no edge is invented")
			} else {
				vx.Assert(have == 1, "each target appears exactly once")
				vx.Assert(vx.Close(hsum, sum, 1e-9, 1e-12), "its weight is the sum of the parallel edges' weights")
			}
		}
	}
}

//go:build verif

package graphalg

import (
	"github.com/aclements/go-moremath/graph"
	"github.com/aclements/go-moremath/internal/vx"
)

// VxC20_Graphs: the graph algorithms do not modify the graph they are given and are deterministic.
// C20: "No function of the library modifies slices, Samples or graphs passed to it".
//
//vx:solver z3-new
//vx:maxdec 100000
//vx:bound graphs with n <= 3 nodes, out-degree <= 2, edge targets symbolic; every root
func VxC20_Graphs() {
	n := vx.Choose("n", 1, 3)
	g := make(graph.IntGraph, n)
	for i := 0; i < n; i++ {
		d := vx.Choose(vxNm("deg", i), 0, 2)
		g[i] = make([]int, d)
		for k := 0; k < d; k++ {
			t := vx.Int(vxNm("e", i*8+k))
			vx.Assume(vx.And(t >= 0, t < n))
			g[i][k] = vx.Concretize(t)
		}
	}
	root := vx.Choose("root", 0, n-1)
	vx.Epoch()
	for i := range g {
		vx.Freeze(g[i])
	}
	vx.Freeze(g)
	run := func() []int {
		var out []int
		out = append(out, PreOrder(g, root)...)
		out = append(out, PostOrder(g, root)...)
		sc := SCC(g, SCCEdges)
		out = append(out, sc.NumNodes())
		for c := 0; c < sc.NumNodes(); c++ {
			out = append(out, sc.Subnodes(c)...)
			out = append(out, sc.Out(c)...)
		}
		bg := graph.MakeBiGraph(g)
		idom := IDom(bg, root)
		out = append(out, idom...)
		for _, f := range DomFrontier(bg, root, idom) {
			out = append(out, f...)
		}
		sm := SimplifyMulti(g)
		for i := 0; i < n; i++ {
			out = append(out, sm.Out(i)...)
		}
		if graph.Equal(g, g) {
			out = append(out, 1)
		}
		return out
	}
	a := run()
	vx.Assert(vx.NoGlobalWrites(), "the graph algorithms write no package-level state")
	b := run()
	vx.Thaw()
	vx.Assert(vxEqInts(a, b), "the graph algorithms are deterministic")
}

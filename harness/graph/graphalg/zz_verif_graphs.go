//go:build verif

package graphalg

import (
	"github.com/aclements/go-moremath/graph"
	"github.com/aclements/go-moremath/internal/vx"
)

// vxGraph is a directed multigraph whose out-degrees are case-split and whose edge targets are
// symbolic in [0,n). A node's targets are concretized (forking over the feasible values) the
// first time its adjacency list is requested, so edges of nodes that are never visited stay symbolic.
type vxGraph struct {
	adj  [][]int
	done []bool
}

func (g *vxGraph) NumNodes() int { return len(g.adj) }
func (g *vxGraph) Out(i int) []int {
	if !g.done[i] {
		for k := range g.adj[i] {
			g.adj[i][k] = vx.Concretize(g.adj[i][k])
		}
		g.done[i] = true
	}
	return g.adj[i]
}

func vxMakeGraph(n, maxDeg int) *vxGraph {
	g := &vxGraph{adj: make([][]int, n), done: make([]bool, n)}
	// CSR layout (see graph/zz_verif_c18_graph.go): adjacency lists are windows of one backing array
	buf := make([]int, n*maxDeg+4)
	for i := range buf {
		buf[i] = -7
	}
	off := 0
	for i := 0; i < n; i++ {
		d := vx.Choose(vxNm("deg", i), 0, maxDeg)
		g.adj[i] = buf[off : off+d]
		off += d
		for k := 0; k < d; k++ {
			t := vx.Int(vxNm("e", i*8+k))
			vx.Assume(vx.And(t >= 0, t < n))
			g.adj[i][k] = t
		}
	}
	return g
}

func vxNm(p string, i int) string {
	return p + string(rune('0'+i/10)) + string(rune('0'+i%10))
}

// vxGraphShape picks (n, maxDeg) for the tier.
func vxGraphShape() (n, maxDeg int) {
	if vx.Tier() == 0 {
		switch vx.Choose("shape", 0, 2) {
		case 0:
			return 1, 2
		case 1:
			return 2, 2
		}
		return 3, 2
	}
	switch vx.Choose("shape", 0, 3) {
	case 0:
		return 1, 3
	case 1:
		return 2, 3
	case 2:
		return 3, 3
	}
	return 4, 2
}

// vxRefDFS: depth-first pre- and post-order following adjacency order; iterative, plain []bool.
func vxRefDFS(g graph.Graph, root int) (pre, post []int) {
	seen := make([]bool, g.NumNodes())
	type fr struct{ n, i int }
	st := []fr{{root, 0}}
	seen[root] = true
	pre = append(pre, root)
	for len(st) > 0 {
		top := &st[len(st)-1]
		out := g.Out(top.n)
		if top.i < len(out) {
			v := out[top.i]
			top.i++
			if !seen[v] {
				seen[v] = true
				pre = append(pre, v)
				st = append(st, fr{v, 0})
			}
		} else {
			post = append(post, top.n)
			st = st[:len(st)-1]
		}
	}
	return
}

func vxEqInts(a, b []int) bool {
	if len(a) != len(b) {
		return false
	}
	for i := range a {
		if a[i] != b[i] {
			return false
		}
	}
	return true
}

// vxReach: nodes reachable from root with node deleted (-1: none) removed.
func vxReach(g graph.Graph, root, deleted int) []bool {
	seen := make([]bool, g.NumNodes())
	if root == deleted {
		return seen
	}
	stack := []int{root}
	seen[root] = true
	for len(stack) > 0 {
		u := stack[len(stack)-1]
		stack = stack[:len(stack)-1]
		for _, v := range g.Out(u) {
			if v != deleted && !seen[v] {
				seen[v] = true
				stack = append(stack, v)
			}
		}
	}
	return seen
}

// VxC18_Traversals: PreOrder, PostOrder and Euler.Visit against an independent iterative DFS.
// C18: "PreOrder and PostOrder return exactly the depth-first pre- and post-orders of the nodes reachable from the
// root following adjacency order, Euler.Visit makes properly nested Enter/Exit calls in that order".
//
//vx:solver z3-new
//vx:maxdec 100000
//vx:bound graphs with n <= 3 nodes, out-degree <= 2 (quick); n <= 3 with out-degree <= 3 and n = 4 with out-degree <= 2 (thorough); self-loops, parallel edges, unreachable nodes; every root; edge targets symbolic (edges of unvisited nodes are never fixed)
//vx:outside graphs above 4 nodes (reached only through the NodeMarks induction: the traversals touch their visited set through Mark/Test alone)
func VxC18_Traversals() {
	n, md := vxGraphShape()
	g := vxMakeGraph(n, md)
	root := vx.Choose("root", 0, n-1)
	pre := PreOrder(g, root)
	post := PostOrder(g, root)
	wpre, wpost := vxRefDFS(g, root)
	vx.Assert(vxEqInts(pre, wpre), "PreOrder is the depth-first pre-order following adjacency order")
	vx.Assert(vxEqInts(post, wpost), "PostOrder is the depth-first post-order following adjacency order")
	var en, ex []int
	depth, bad := 0, false
	Euler{Enter: func(v int) { en = append(en, v); depth++ }, Exit: func(v int) {
		ex = append(ex, v)
		depth--
		if depth < 0 {
			bad = true
		}
	}}.Visit(g, root)
	vx.Assert(vxEqInts(en, wpre) && vxEqInts(ex, wpost) && depth == 0 && !bad, "Euler.Visit: Enter in pre-order, Exit in post-order, properly nested")
	Euler{}.Visit(g, root) // nil callbacks are allowed
	if len(wpre) < n {
		vx.Cover("unreachable-nodes")
	}
}

// VxC18_Reverse: Reverse reverses in place.
//
//vx:solver z3-new
//vx:bound length 0..6, contents symbolic
func VxC18_Reverse() {
	n := vx.Choose("len", 0, 6)
	xs := vx.Ints("x", n)
	old := append([]int(nil), xs...)
	r := Reverse(xs)
	vx.Assert(len(r) == n, "Reverse keeps the length")
	for i := 0; i < n; i++ {
		vx.Assert(r[i] == old[n-1-i] && xs[i] == old[n-1-i], "Reverse reverses in place and returns the same slice")
	}
}

// VxC18_SCC: the partition, its numbering and the component edges agree with reachability.
// C18: "SCC partitions the nodes so that two nodes share a component exactly when each reaches the other, numbers
// components in reverse topological order, and with SCCEdges lists for each component exactly the other components it
// has an edge into, once each".
//
//vx:solver z3-new
//vx:maxdec 100000
//vx:bound same graph family as VxC18_Traversals; flags in {0, SCCSubnodeComponent, SCCEdges}
func VxC18_SCC() {
	n, md := vxGraphShape()
	g := vxMakeGraph(n, md)
	flags := []SCCFlags{0, SCCSubnodeComponent, SCCEdges}[vx.Choose("flags", 0, 2)]
	sc := SCC(g, flags)
	all := make([][]bool, n)
	for i := range all {
		all[i] = vxReach(g, i, -1)
	}
	comp := make([]int, n)
	cnt := 0
	for c := 0; c < sc.NumNodes(); c++ {
		for _, v := range sc.Subnodes(c) {
			comp[v] = c
			cnt++
			if flags != 0 {
				vx.Assert(sc.SubnodeComponent(v) == c, "SubnodeComponent inverts Subnodes")
			}
		}
	}
	vx.Assert(cnt == n, "the components partition the nodes")
	if flags == 0 {
		vx.Assert(vx.Panics(func() { sc.SubnodeComponent(0) }), "SubnodeComponent panics without its flag")
		vx.Assert(sc.Out(0) == nil, "no component edges without SCCEdges")
	}
	for u := 0; u < n; u++ {
		for v := 0; v < n; v++ {
			vx.Assert((comp[u] == comp[v]) == (all[u][v] && all[v][u]), "same component exactly when each node reaches the other")
		}
		for _, v := range g.Out(u) {
			vx.Assert(comp[u] >= comp[v], "components are numbered in reverse topological order")
		}
	}
	if flags == SCCEdges {
		for c := 0; c < sc.NumNodes(); c++ {
			want := make([]bool, sc.NumNodes())
			nwant := 0
			for _, u := range sc.Subnodes(c) {
				for _, v := range g.Out(u) {
					if comp[v] != c && !want[comp[v]] {
						want[comp[v]] = true
						nwant++
					}
				}
			}
			seen := make([]bool, sc.NumNodes())
			nseen := 0
			for _, x := range sc.Out(c) {
				vx.Assert(x >= 0 && x < sc.NumNodes() && !seen[x] && want[x], "Out(c) lists only other components c has an edge into, once each")
				if x >= 0 && x < sc.NumNodes() && !seen[x] {
					seen[x] = true
					nseen++
				}
			}
			vx.Assert(nseen == nwant, "Out(c) lists every component c has an edge into")
		}
	}
}

// VxC19_Dominators: IDom, Dom and DomFrontier against dominance by node deletion.
// C19: "IDom returns for each node reachable from the root other than the root its unique closest strict dominator ...
// and -1 for the root and for unreachable nodes. Dom builds the tree whose child lists invert IDom, and DomFrontier returns
// for each reachable node x exactly the reachable nodes y such that x dominates a reachable predecessor of y but does not
// strictly dominate y ... None of them panics".
//
//vx:solver z3-new
//vx:maxdec 100000
//vx:bound same graph family as VxC18_Traversals (n <= 3 quick; n = 4 with out-degree <= 2 thorough), every root, through MakeBiGraph
//vx:outside more than 4 nodes
func VxC19_Dominators() {
	n, md := vxGraphShape()
	g := vxMakeGraph(n, md)
	root := vx.Choose("root", 0, n-1)
	vxC19Body(g, n, root)
}

// VxC19_DominatorsSparse5: the same on sparse 5-node graphs (thorough tier only). Irreducible
// loops that need a third pass of the fix-point iteration first appear at 5 nodes.
//
//vx:tier 1
//vx:budget 9000
//vx:solver z3-new
//vx:maxdec 100000
//vx:bound 5 nodes, out-degree <= 2 per node, at most 7 edges in total, root 0 (the family is closed under renaming nodes, so this covers every root)
func VxC19_DominatorsSparse5() {
	n := 5
	g := &vxGraph{adj: make([][]int, n), done: make([]bool, n)}
	edges := 0
	for i := 0; i < n; i++ {
		d := vx.Choose(vxNm("deg", i), 0, 2)
		edges += d
		vx.Assume(edges <= 7)
		g.adj[i] = make([]int, d)
		for k := 0; k < d; k++ {
			t := vx.Int(vxNm("e", i*8+k))
			vx.Assume(vx.And(t >= 0, t < n))
			g.adj[i][k] = t
		}
	}
	vxC19Body(g, n, 0)
}

// VxC19_DominatorsIrreducible: the same around two irreducible templates that need three passes of
// the fix-point iteration (the smallest such flow graph, 5 nodes / 7 edges, and the 6-node example
// of Cooper, Harvey and Kennedy), each with up to two extra edges anywhere and any root: graphs of
// this kind are beyond the exhaustive families of the quick tier.
//
//vx:solver z3-new
//vx:maxdec 200000
//vx:bound template A: 1->2,1->4,2->3,3->0,4->0,0->3,0->4; template B: 5->4,5->3,4->0,3->1,3->2,0->1,1->0,1->2,2->1; plus 0..2 extra edges (quick: 0..1) with any source and symbolic target; every root
//vx:outside other graphs on 5 or more nodes (VxC19_DominatorsSparse5 in the thorough tier)
func VxC19_DominatorsIrreducible() {
	var adj [][]int
	if vx.Choose("template", 0, 1) == 0 {
		adj = [][]int{{3, 4}, {2, 4}, {3}, {0}, {0}}
	} else {
		adj = [][]int{{1}, {0, 2}, {1}, {1, 2}, {0}, {4, 3}}
	}
	n := len(adj)
	g := &vxGraph{adj: make([][]int, n), done: make([]bool, n)}
	for i := range adj {
		g.adj[i] = append([]int(nil), adj[i]...)
	}
	extra := vx.Choose("extra", 0, 1+vx.Tier())
	for k := 0; k < extra; k++ {
		src := vx.Choose(vxNm("src", k), 0, n-1)
		t := vx.Int(vxNm("x", k))
		vx.Assume(vx.And(t >= 0, t < n))
		g.adj[src] = append(g.adj[src], t)
	}
	root := vx.Choose("root", 0, n-1)
	vxC19Body(g, n, root)
}

func vxC19Body(g *vxGraph, n, root int) {
	bg := graph.MakeBiGraph(g)
	r := vxReach(g, root, -1)
	dom := make([][]bool, n)
	for d := 0; d < n; d++ {
		wo := vxReach(g, root, d)
		dom[d] = make([]bool, n)
		for v := 0; v < n; v++ {
			dom[d][v] = r[v] && r[d] && (d == v || !wo[v])
		}
	}
	var idom []int
	if vx.Panics(func() { idom = IDom(bg, root) }) {
		vx.Assert(false, "IDom does not panic")
		return
	}
	vx.Assert(len(idom) == n, "IDom has one entry per node")
	for v := 0; v < n; v++ {
		if !r[v] || v == root {
			vx.Assert(idom[v] == -1, "IDom is -1 for the root and for unreachable nodes")
			continue
		}
		d := idom[v]
		ok := d >= 0 && d < n && d != v && dom[d][v]
		for e := 0; ok && e < n; e++ {
			if e != v && e != d && dom[e][v] && !dom[e][d] {
				ok = false
			}
		}
		vx.Assert(ok, "IDom(v) is the closest strict dominator of v")
	}
	dt := Dom(idom)
	vx.Assert(dt.NumNodes() == n, "Dom has one node per graph node")
	for p := 0; p < n; p++ {
		cnt := make([]int, n)
		for _, c := range dt.Out(p) {
			vx.Assert(c >= 0 && c < n && idom[c] == p, "Dom.Out(p) lists only nodes whose immediate dominator is p")
			if c >= 0 && c < n {
				cnt[c]++
			}
		}
		for v := 0; v < n; v++ {
			want := 0
			if idom[v] == p {
				want = 1
			}
			vx.Assert(cnt[v] == want, "Dom.Out(p) lists every child exactly once")
		}
		in := dt.In(p)
		vx.Assert(len(in) == 1 && in[0] == idom[p] && dt.IDom(p) == idom[p], "Dom.In(p) is [IDom(p)]")
	}
	var df [][]int
	useNil := vx.Choose("idomNil", 0, 1) == 1
	if vx.Panics(func() {
		if useNil {
			df = DomFrontier(bg, root, nil)
		} else {
			df = DomFrontier(bg, root, idom)
		}
	}) {
		vx.Assert(false, "DomFrontier does not panic (graphs with unreachable nodes feeding reachable joins included)")
		return
	}
	vx.Assert(len(df) == n, "DomFrontier has one entry per node")
	rootIn := len(bg.In(root))
	for x := 0; x < n; x++ {
		if !r[x] {
			continue
		}
		want := make([]bool, n)
		for y := 0; y < n; y++ {
			if !r[y] {
				continue
			}
			hit := false
			for _, p := range bg.In(y) {
				if r[p] && dom[x][p] {
					hit = true
				}
			}
			if hit && !(x != y && dom[x][y]) {
				want[y] = true
			}
		}
		got := make([]bool, n)
		for _, y := range df[x] {
			vx.Assert(y >= 0 && y < n, "frontier members are nodes")
			if y >= 0 && y < n {
				got[y] = true
			}
		}
		for y := 0; y < n; y++ {
			if y == root && rootIn == 1 {
				continue // membership of the root is claimed only when it has 0 or >= 2 incoming edges
			}
			vx.Assert(got[y] == want[y], "DomFrontier(x) is the set of reachable y with x dominating a reachable predecessor of y but not strictly dominating y")
		}
	}
	if len(vxReachCount(r)) < n {
		vx.Cover("unreachable-nodes")
	}
}

func vxReachCount(r []bool) []int {
	var out []int
	for i, b := range r {
		if b {
			out = append(out, i)
		}
	}
	return out
}

// VxC19_DomTree: Dom inverts an arbitrary parent vector (not only ones produced by IDom).
//
//vx:solver z3-new
//vx:maxdec 100000
//vx:bound n = 1..4 (quick) / 1..5 (thorough); parent vector symbolic in [-1, n)
func VxC19_DomTree() {
	n := vx.Choose("n", 1, 4+vx.Tier())
	idom := vx.Ints("idom", n)
	for i := range idom {
		vx.Assume(vx.And(idom[i] >= -1, idom[i] < n))
	}
	vx.Freeze(idom)
	dt := Dom(idom)
	vx.Thaw()
	total := 0
	for p := 0; p < n; p++ {
		for _, c := range dt.Out(p) {
			vx.Assert(vx.And(c >= 0, c < n), "children are nodes")
			cc := vx.Concretize(c)
			vx.Assert(idom[cc] == p, "a child's parent is p")
			total++
		}
	}
	np := 0
	for i := range idom {
		np += vx.IteInt(idom[i] != -1, 1, 0)
	}
	vx.Assert(total == np, "every node with a parent appears in exactly one child list (the carved slices do not overlap)")
}

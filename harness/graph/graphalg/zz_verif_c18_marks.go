//go:build verif

package graphalg

import "github.com/aclements/go-moremath/internal/vx"

// vxMember is the abstraction function of NodeMarks: the set denoted by the words.
func vxMember(marks []uint32, j int) bool {
	if j < 0 || j/32 >= len(marks) {
		return false
	}
	return (marks[j/32]>>(uint(j)%32))&1 != 0
}

// vxMarksState builds an arbitrary NodeMarks state: L words with symbolic contents.
func vxMarksState() *NodeMarks {
	var L int
	switch vx.Choose("Lsel", 0, 4+vx.Tier()) {
	case 0:
		L = 0
	case 1:
		L = 1
	case 2:
		L = 2
	case 3:
		L = 3
	case 4:
		L = 32 // NewNodeMarks()
	default:
		L = 64
	}
	m := &NodeMarks{}
	if L > 0 {
		m.marks = make([]uint32, L)
		for w := 0; w < L; w++ {
			m.marks[w] = vx.Uint32I("w", w)
		}
	}
	return m
}

// VxC18_MarksMark: one Mark step from an arbitrary state (covers any history).
// C18: "NodeMarks behaves as a set of non-negative integers under any sequence of Mark, Unmark, Test and Next".
//
//vx:solver z3-new
//vx:bound words L in {0,1,2,3,32,64} with symbolic contents; 0 <= i < 4096 (crosses the 1023->1024 growth boundary); probe j in [-8, 8192)
//vx:outside ids >= 4096 (the grown array would need > 128 symbolic words per query)
func VxC18_MarksMark() {
	m := vxMarksState()
	i := vx.Int("i")
	j := vx.Int("j")
	vx.Assume(vx.And(i >= 0, i < 4096))
	vx.Assume(vx.And(j >= -8, j < 8192))
	before := vxMember(m.marks, j)
	oldLen := len(m.marks)
	m.Mark(i)
	after := vxMember(m.marks, j)
	vx.Assert(after == (before || j == i), "Mark(i): afterwards j is marked iff j==i or j was marked")
	vx.Assert(len(m.marks) >= oldLen, "Mark never shrinks the storage")
	if len(m.marks) > oldLen {
		vx.Cover("grown")
	}
}

// VxC18_MarksUnmarkTest: Unmark and Test from an arbitrary state.
//
//vx:solver z3-new
//vx:bound words L in {0,1,2,3,32,64}; i, j any int64 for Test; Unmark i >= 0 (negative ids are outside "a set of non-negative integers")
func VxC18_MarksUnmarkTest() {
	m := vxMarksState()
	i := vx.Int("i")
	j := vx.Int("j")
	vx.Assert(m.Test(j) == vxMember(m.marks, j), "Test(j) is membership (false for negative j)")
	vx.Assume(i >= 0)
	before := vxMember(m.marks, j)
	oldLen := len(m.marks)
	m.Unmark(i)
	after := vxMember(m.marks, j)
	vx.Assert(after == (before && j != i), "Unmark(i): afterwards j is marked iff it was and j != i")
	vx.Assert(len(m.marks) == oldLen, "Unmark never changes the storage size")
}

// VxC18_MarksNext: Next(i) is the least member greater than i, or -1.
//
//vx:timeout 90000
//vx:solver z3-new
//vx:bound words L in {0,1,2,3,32,64}; any int64 i; probe j any int64
func VxC18_MarksNext() {
	m := vxMarksState()
	i := vx.Int("i")
	j := vx.Int("j")
	vx.Assume(i < 1<<62) // i+1 must not overflow for "greater than i" to be meaningful
	n := m.Next(i)
	if n < 0 {
		vx.Cover("none")
		vx.Assert(n == -1, "Next returns -1 when it returns a negative number")
		vx.Assert(!(j > i && vxMember(m.marks, j)), "Next(i) == -1 only if no member is greater than i")
	} else {
		vx.Cover("found")
		vx.Assert(n > i, "Next(i) > i")
		vx.Assert(vxMember(m.marks, n), "Next(i) is a member")
		vx.Assert(!(j > i && j < n && vxMember(m.marks, j)), "no member lies strictly between i and Next(i)")
	}
}

// VxC18_MarksNew: NewNodeMarks is the empty set and the zero value is usable.
//
//vx:solver z3-new
func VxC18_MarksNew() {
	j := vx.Int("j")
	m := NewNodeMarks()
	vx.Assert(!m.Test(j), "NewNodeMarks() has no marks")
	vx.Assert(m.Next(-1) == -1, "NewNodeMarks().Next(-1) == -1")
	var z NodeMarks
	vx.Assert(!z.Test(j), "zero NodeMarks has no marks")
	i := vx.Int("i")
	vx.Assume(vx.And(i >= 0, i < 2048))
	z.Mark(i)
	vx.Assert(z.Test(i), "zero NodeMarks: Mark(i) then Test(i)")
	m.Mark(i)
	vx.Assert(m.Test(i), "NewNodeMarks: Mark(i) then Test(i)")
	vx.Assert(m.Next(-1) == i, "single mark is the first Next")
}

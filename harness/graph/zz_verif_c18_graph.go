//go:build verif

package graph

import "github.com/aclements/go-moremath/internal/vx"

func vxNm(p string, i int) string {
	return p + string(rune('0'+i/10)) + string(rune('0'+i%10))
}

// vxIntGraph: IntGraph with case-split out-degrees and symbolic targets in [0,n).
func vxIntGraph(p string, n, maxDeg int, concretize bool) IntGraph {
	g := make(IntGraph, n)
	// CSR layout: every adjacency list is a window of one shared backing array, so each has spare
	// capacity that runs into the following lists (an in-place append by the code under test lands
	// in the caller's graph, and Freeze - whole backing array - sees it)
	buf := make([]int, n*maxDeg+4)
	for i := range buf {
		buf[i] = -7
	}
	off := 0
	for i := 0; i < n; i++ {
		d := vx.Choose(vxNm(p+"deg", i), 0, maxDeg)
		g[i] = buf[off : off+d]
		off += d
		for k := 0; k < d; k++ {
			t := vx.Int(vxNm(p+"e", i*8+k))
			vx.Assume(vx.And(t >= 0, t < n))
			if concretize {
				t = vx.Concretize(t)
			}
			g[i][k] = t
		}
	}
	return g
}

// VxC18_BiGraph: MakeBiGraph's In is the transpose of Out (as multisets), and a BiGraph is returned as is.
// C18: "MakeBiGraph's In is the transpose of Out".
//
//vx:solver z3-new
//vx:maxdec 100000
//vx:bound n <= 3 nodes, out-degree <= 2 (quick) / <= 3 (thorough), edge targets symbolic
func VxC18_BiGraph() {
	n := vx.Choose("n", 1, 3)
	g := vxIntGraph("", n, 2+vx.Tier(), false)
	for i := range g {
		vx.Freeze(g[i])
	}
	bg := MakeBiGraph(g)
	vx.Thaw()
	vx.Assert(bg.NumNodes() == n, "same node count")
	for v := 0; v < n; v++ {
		in := bg.In(v)
		for u := 0; u < n; u++ {
			// multiplicity of u among In(v) equals the number of edges u->v
			have, want := 0, 0
			for _, x := range in {
				have += vx.IteInt(x == u, 1, 0)
			}
			for _, w := range g[u] {
				want += vx.IteInt(w == v, 1, 0)
			}
			vx.Assert(have == want, "In(v) holds u once per edge u->v")
		}
		out := bg.Out(v)
		vx.Assert(len(out) == len(g[v]), "Out unchanged")
	}
	bg2 := MakeBiGraph(bg)
	vx.Assert(bg2 == bg, "a BiGraph is returned unchanged")
}

// VxC18_Equal: Equal compares adjacency lists as multisets and does not reorder its arguments.
// C18: "Equal compares adjacency lists as multisets".
//
//vx:solver z3-new
//vx:maxdec 100000
//vx:bound two graphs with n1, n2 in 1..2 nodes, out-degree <= 3 (quick) / n <= 3 (thorough), all edge targets symbolic
func VxC18_Equal() {
	n1 := vx.Choose("n1", 1, 2+vx.Tier())
	n2 := vx.Choose("n2", 1, 2+vx.Tier())
	g1 := vxIntGraph("a", n1, 3, false)
	g2 := vxIntGraph("b", n2, 3, false)
	for i := range g1 {
		vx.Freeze(g1[i])
	}
	for i := range g2 {
		vx.Freeze(g2[i])
	}
	got := Equal(g1, g2)
	vx.Thaw()
	want := n1 == n2
	for i := 0; want && i < n1; i++ {
		if len(g1[i]) != len(g2[i]) {
			want = false
			break
		}
		n := n1
		if n2 > n {
			n = n2
		}
		for v := 0; v < n; v++ {
			c1, c2 := 0, 0
			for _, x := range g1[i] {
				c1 += vx.IteInt(x == v, 1, 0)
			}
			for _, x := range g2[i] {
				c2 += vx.IteInt(x == v, 1, 0)
			}
			want = vx.And(want, c1 == c2)
		}
	}
	vx.Assert(got == want, "Equal holds exactly when every adjacency list is the same multiset")
	if got {
		vx.Cover("equal")
	} else {
		vx.Cover("different")
	}
}

// VxC18_SubgraphKeep: the requested nodes and edges, in request order, with maps back.
// C18: "SubgraphKeep and SubgraphRemove yield exactly the requested subgraph with NodeMap and EdgeMap translating back
// to the original identifiers".
//
//vx:solver z3-new
//vx:maxdec 100000
//vx:bound underlying graph n <= 2 (quick) / n <= 3 (thorough), out-degree <= 2; any sequence of kept node ids (symbolic) and up to 2 (quick) / 1 (thorough) kept edges (symbolic); documented panics for bad/duplicate nodes
func VxC18_SubgraphKeep() {
	n := vx.Choose("n", 1, 2+vx.Tier())
	g := vxIntGraph("", n, 2, true)
	k := vx.Choose("keep", 0, n)
	nodes := vx.Ints("node", k)
	valid := true
	for i := range nodes {
		vx.Assume(vx.And(nodes[i] >= -1, nodes[i] <= n)) // -1 and n stand for all ids outside the graph
		nodes[i] = vx.Concretize(nodes[i])
		if nodes[i] < 0 || nodes[i] >= n {
			valid = false
		}
		for j := 0; j < i; j++ {
			if nodes[j] == nodes[i] {
				valid = false
			}
		}
	}
	if !valid {
		vx.Cover("bad-nodes")
		vx.Assert(vx.Panics(func() { SubgraphKeep(g, nodes, nil) }), "SubgraphKeep panics for nodes outside the graph or duplicates")
		return
	}
	pos := make([]int, n) // old -> new, -1 if dropped
	for i := range pos {
		pos[i] = -1
	}
	for i, o := range nodes {
		pos[o] = i
	}
	ne := vx.Choose("edges", 0, 2-vx.Tier())
	edges := make([]Edge, ne)
	for i := range edges {
		en, ee := vx.IntI("en", i), vx.IntI("ee", i)
		vx.Assume(vx.And(vx.And(en >= 0, en < n), vx.And(ee >= 0, ee < 2)))
		edges[i] = Edge{Node: vx.Concretize(en), Edge: vx.Concretize(ee)}
		e := edges[i]
		// a valid request: the source is kept, the edge exists and its target is kept
		vx.Assume(e.Node >= 0 && e.Node < n && pos[e.Node] >= 0 && e.Edge >= 0 && e.Edge < len(g[e.Node]) && pos[g[e.Node][e.Edge]] >= 0)
	}
	vx.Freeze(nodes)
	sg := SubgraphKeep(g, nodes, edges)
	vx.Thaw()
	vx.Assert(sg.NumNodes() == k && sg.Underlying().NumNodes() == n, "node count and underlying graph")
	nm := sg.NodeMap(func(node int) interface{} { return node })
	em := sg.EdgeMap(func(node, edge int) interface{} { return Edge{node, edge} })
	for i := 0; i < k; i++ {
		vx.Assert(nm(i).(int) == nodes[i], "NodeMap translates new node i back to nodes[i]")
		var want []Edge
		for _, e := range edges {
			if e.Node == nodes[i] {
				want = append(want, e)
			}
		}
		out := sg.Out(i)
		vx.Assert(len(out) == len(want), "a kept node has exactly its requested edges")
		for j := 0; j < len(out) && j < len(want); j++ {
			vx.Assert(out[j] == pos[g[want[j].Node][want[j].Edge]], "kept edge leads to the new id of its old target")
			vx.Assert(em(i, j).(Edge) == want[j], "EdgeMap translates back to the old node and edge index")
		}
	}
}

// VxC18_SubgraphRemove: everything except the removed nodes and edges, maps back.
//
//vx:solver z3-new
//vx:maxdec 100000
//vx:bound underlying graph n <= 2 (quick) / n <= 3 (thorough), out-degree <= 2; up to 2 (quick) / 1 (thorough) removed nodes and up to 2 removed edges (symbolic)
func VxC18_SubgraphRemove() {
	n := vx.Choose("n", 1, 2+vx.Tier())
	g := vxIntGraph("", n, 2, true)
	k := vx.Choose("rm", 0, 2-vx.Tier())
	nodes := vx.Ints("node", k)
	removed := make([]bool, n)
	for i := range nodes {
		vx.Assume(vx.And(nodes[i] >= 0, nodes[i] < n))
		nodes[i] = vx.Concretize(nodes[i])
		removed[nodes[i]] = true
	}
	ne := vx.Choose("edges", 0, 2)
	edges := make([]Edge, ne)
	for i := range edges {
		en, ee := vx.IntI("en", i), vx.IntI("ee", i)
		vx.Assume(vx.And(vx.And(en >= 0, en < n), vx.And(ee >= 0, ee < 2)))
		edges[i] = Edge{Node: vx.Concretize(en), Edge: vx.Concretize(ee)}
	}
	sg := SubgraphRemove(g, nodes, edges)
	var kept []int
	pos := make([]int, n)
	for o := 0; o < n; o++ {
		pos[o] = -1
		if !removed[o] {
			pos[o] = len(kept)
			kept = append(kept, o)
		}
	}
	vx.Assert(sg.NumNodes() == len(kept), "the remaining nodes")
	nm := sg.NodeMap(func(node int) interface{} { return node })
	em := sg.EdgeMap(func(node, edge int) interface{} { return Edge{node, edge} })
	for i, o := range kept {
		vx.Assert(nm(i).(int) == o, "NodeMap translates back, remaining nodes keep their order")
		var wantTo []int
		var wantE []Edge
		for j, t := range g[o] {
			gone := removed[t]
			for _, e := range edges {
				if e.Node == o && e.Edge == j {
					gone = true
				}
			}
			if !gone {
				wantTo = append(wantTo, pos[t])
				wantE = append(wantE, Edge{o, j})
			}
		}
		out := sg.Out(i)
		vx.Assert(len(out) == len(wantTo), "a remaining node keeps exactly its unremoved edges to remaining nodes")
		for j := 0; j < len(out) && j < len(wantTo); j++ {
			vx.Assert(out[j] == wantTo[j], "edge targets are renumbered")
			vx.Assert(em(i, j).(Edge) == wantE[j], "EdgeMap translates back")
		}
	}
}

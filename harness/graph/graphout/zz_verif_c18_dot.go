//go:build verif

package graphout

import (
	"github.com/aclements/go-moremath/graph"
	"github.com/aclements/go-moremath/internal/vx"
)

func vxNm(p string, i int) string { return p + string(rune('0'+i)) }

// vxUnescape is the reference reader of a DOT double-quoted string.
func vxUnescape(q string) (string, bool) {
	if len(q) < 2 || q[0] != '"' || q[len(q)-1] != '"' {
		return "", false
	}
	var out []byte
	for i := 1; i < len(q)-1; i++ {
		c := q[i]
		if c == '"' {
			return "", false // an unescaped quote ends the string early
		}
		if c == '\\' {
			i++
			if i >= len(q)-1 {
				return "", false
			}
			if q[i] == 'n' {
				out = append(out, '\n')
			} else {
				out = append(out, q[i])
			}
			continue
		}
		out = append(out, c)
	}
	return string(out), true
}

// VxC18_DotString: quoting is an encode/decode round trip for every byte string.
// C18: "Dot output ... with strings quoted so that unescaping restores them".
//
//vx:solver z3-new
//vx:maxdec 100000
//vx:bound byte strings of length 0..3 (quick) / 0..4 (thorough), every byte symbolic
func VxC18_DotString() {
	n := vx.Choose("len", 0, 3+vx.Tier())
	b := make([]byte, n)
	for i := range b {
		b[i] = vx.ByteI("b", i)
	}
	s := string(b)
	q := DotString(s)
	back, ok := vxUnescape(q)
	vx.Assert(ok, "the quoted form is a well-formed DOT string (no unescaped quote inside)")
	vx.Assert(back == s, "unescaping restores the string")
}

// VxC18_RuneRange (translator validation): `for range` over a string with symbolic bytes, as the
// engine decodes it, agrees with the native decoder - sampled paths are replayed natively and the
// observed rune count, rune sum and first width are compared; structural facts are asserted.
//
//vx:solver z3-new
//vx:maxdec 100000
//vx:bound byte strings of length 1..3, every byte symbolic (all UTF-8 classes, truncated and invalid sequences)
func VxC18_RuneRange() {
	n := vx.Choose("len", 1, 3)
	b := make([]byte, n)
	for i := range b {
		b[i] = vx.ByteI("b", i)
	}
	s := string(b)
	count, sum, firstW, last := 0, 0, 0, 0
	for i, r := range s {
		if count == 1 {
			firstW = i
		}
		count++
		sum += int(r)
		last = i
		vx.Assert(r >= 0 && r <= 0x10FFFF && !(r >= 0xD800 && r <= 0xDFFF), "decoded runes are Unicode scalar values")
	}
	vx.Assert(count >= 1 && count <= n && last < n, "between one rune per byte and one rune in all")
	vx.Observe("count", count)
	vx.Observe("sum", sum)
	vx.Observe("firstWidth", firstW)
}

// VxC18_DotPrint: one node statement per node, one edge statement per edge in order, a label
// attribute exactly when NodeAttrs supplied none, and the caller's attribute slice is not appended into.
//
//vx:solver z3-new
//vx:maxdec 100000
//vx:bound n <= 2 nodes, out-degree <= 2, edge targets symbolic; with and without caller-supplied node attributes
func VxC18_DotPrint() {
	n := vx.Choose("n", 1, 2)
	g := make(graph.IntGraph, n)
	for i := 0; i < n; i++ {
		d := vx.Choose(vxNm("deg", i), 0, 2)
		g[i] = make([]int, d)
		for k := 0; k < d; k++ {
			t := vx.Int(vxNm("e", i*4+k))
			vx.Assume(vx.And(t >= 0, t < n))
			g[i][k] = vx.Concretize(t)
		}
	}
	mode := vx.Choose("attrs", 0, 2) // 0: none, 1: caller attrs without label (spare capacity), 2: caller label
	backing := make([]DotAttr, 1, 4)
	backing[0] = DotAttr{"shape", DotLiteral("box")}
	if mode == 2 {
		backing[0] = DotAttr{"label", "L"}
	}
	d := Dot{Name: "g"}
	if mode != 0 {
		d.NodeAttrs = func(node int) []DotAttr { return backing }
	}
	vx.Freeze(backing[:4])
	got := d.Sprint(g)
	vx.Thaw()
	want := "digraph \"g\" {\n"
	for i := 0; i < n; i++ {
		want += "n" + string(rune('0'+i))
		switch mode {
		case 0:
			want += " [label=\"" + string(rune('0'+i)) + "\"]"
		case 1:
			want += " [shape=box,label=\"" + string(rune('0'+i)) + "\"]"
		default:
			want += " [label=\"L\"]"
		}
		want += ";\n"
		for _, o := range g[i] {
			want += "n" + string(rune('0'+i)) + " -> n" + string(rune('0'+o)) + ";\n"
		}
	}
	want += "}\n"
	vx.Assert(got == want, "Dot output names every node and edge once, in order, with a label attribute added only when the caller supplied none")
}

//go:build verif

// Package vx is the harness vocabulary. In the symbolic engine every function
// here is an intrinsic (this file is never interpreted); compiled natively it
// replays one concrete case: inputs come from the replay JSON, assertions are
// recorded.
package vx

import (
	"encoding/json"
	"fmt"
	"math"
	"os"
	"reflect"
	"strconv"
	"strings"
)

type inputVal struct {
	Name string `json:"name"`
	Kind string `json:"kind"`
	Bits string `json:"bits"`
	I    int64  `json:"i"`
}

type obsVal struct {
	Name string `json:"name"`
	Bits string `json:"bits"`
	Repr string `json:"repr"`
}

type caseData struct {
	Harness string           `json:"harness"`
	Label   string           `json:"failed"`
	Kind    string           `json:"kind"`
	Mode    string           `json:"float_mode"`
	Choices map[string]int64 `json:"shape"`
	Inputs  []inputVal       `json:"inputs"`
}

type outcome struct {
	Index    int      `json:"index"`
	Status   string   `json:"status"`
	PanicMsg string   `json:"panic,omitempty"`
	Fails    []string `json:"fails"`
	Covers   []string `json:"covers"`
	Observed []obsVal `json:"observed"`
	Missing  []string `json:"missing_inputs,omitempty"`
}

type frozenRec struct {
	v    reflect.Value
	snap string
	desc string
}

var (
	cur    *caseData
	inputs map[string]inputVal
	out    *outcome
	frozen []frozenRec
	tier   int
)

type skip struct{}

// ReplayMain runs every case of $VX_CASES and writes $VX_OUT.
func ReplayMain(h map[string]func()) error {
	b, err := os.ReadFile(os.Getenv("VX_CASES"))
	if err != nil {
		return err
	}
	var cases []caseData
	if err := json.Unmarshal(b, &cases); err != nil {
		return err
	}
	if t := os.Getenv("VX_TIER"); t != "" {
		tier, _ = strconv.Atoi(t)
	}
	outs := make([]outcome, len(cases))
	for i := range cases {
		outs[i] = runCase(i, &cases[i], h)
	}
	ob, _ := json.Marshal(outs)
	return os.WriteFile(os.Getenv("VX_OUT"), ob, 0o644)
}

func runCase(i int, c *caseData, h map[string]func()) (o outcome) {
	o = outcome{Index: i, Status: "ok", Fails: []string{}, Covers: []string{}, Observed: []obsVal{}}
	fn, ok := h[c.Harness]
	if !ok {
		o.Status = "unknown-harness"
		return
	}
	cur = c
	inputs = map[string]inputVal{}
	for _, in := range c.Inputs {
		inputs[in.Name] = in
	}
	out = &o
	frozen = nil
	defer func() {
		if r := recover(); r != nil {
			if _, ok := r.(skip); ok {
				o.Status = "assume-false"
			} else {
				o.Status = "panic"
				o.PanicMsg = fmt.Sprint(r)
			}
		}
		checkFrozen()
	}()
	fn()
	return
}

func get(name string) (inputVal, bool) {
	v, ok := inputs[name]
	if !ok {
		out.Missing = append(out.Missing, name)
	}
	return v, ok
}

func Float(name string) float64 {
	v, ok := get(name)
	if !ok {
		return 0
	}
	b, _ := strconv.ParseUint(strings.TrimPrefix(v.Bits, "0x"), 16, 64)
	return math.Float64frombits(b)
}
func FloatI(name string, i int) float64 { return Float(fmt.Sprintf("%s[%d]", name, i)) }
func Floats(name string, n int) []float64 {
	// two cells of spare capacity holding a sentinel (as in the engine): an in-place append by the
	// code under test lands in the caller's backing array, which Freeze snapshots up to cap
	xs := make([]float64, n+2)
	for i := 0; i < n; i++ {
		xs[i] = FloatI(name, i)
	}
	xs[n], xs[n+1] = -1234.5, -1234.5
	return xs[:n]
}
func Int(name string) int {
	v, _ := get(name)
	return int(v.I)
}
func IntI(name string, i int) int { return Int(fmt.Sprintf("%s[%d]", name, i)) }
func Ints(name string, n int) []int {
	xs := make([]int, n)
	for i := range xs {
		xs[i] = IntI(name, i)
	}
	return xs
}
func Uint(name string) uint {
	v, _ := get(name)
	return uint(v.I)
}
func Uint32(name string) uint32 {
	v, _ := get(name)
	return uint32(v.I)
}
func Uint32I(name string, i int) uint32 { return Uint32(fmt.Sprintf("%s[%d]", name, i)) }
func Byte(name string) byte {
	v, _ := get(name)
	return byte(v.I)
}
func ByteI(name string, i int) byte { return Byte(fmt.Sprintf("%s[%d]", name, i)) }
func Bool(name string) bool {
	v, _ := get(name)
	return v.I != 0
}

// Choose is a case split over lo..hi (inclusive); natively the recorded value.
func Choose(name string, lo, hi int) int {
	v, ok := cur.Choices[name]
	if !ok {
		out.Missing = append(out.Missing, "choice:"+name)
		return lo
	}
	return int(v)
}

// Tier is 0 for the quick tier, 1 for thorough.
func Tier() int { return tier }

// Real reports whether floats are read as exact reals by the engine (never natively).
func Real() bool   { return false }
func Mode() string { return "native" }
func Engine() bool { return false }

func Assume(c bool) {
	if !c {
		panic(skip{})
	}
}

func Assert(c bool, label string) {
	if !c {
		out.Fails = append(out.Fails, label)
	}
}

// AssertKF is Assert with a known-finding class: see known_findings.json.
func AssertKF(kf string, class bool, c bool, label string) {
	if !c {
		out.Fails = append(out.Fails, label)
	}
}

func Cover(label string) {
	for _, l := range out.Covers {
		if l == label {
			return
		}
	}
	out.Covers = append(out.Covers, label)
}

// Close is equality up to the stated tolerance natively; the engine reads it as
// exact equality in the real reading and as the tolerance test in FP.
func Close(a, b, rel, abs float64) bool {
	if a == b {
		return true
	}
	if math.IsNaN(a) || math.IsNaN(b) || math.IsInf(a, 0) || math.IsInf(b, 0) {
		return false
	}
	d := math.Abs(a - b)
	return d <= abs || d <= rel*math.Max(math.Abs(a), math.Abs(b))
}

// Near is the tolerance test in every reading (used where native constants such as sqrt(2) enter a
// real-reading identity and exact equality would compare the rounded constant with the exact one).
func Near(a, b, rel, abs float64) bool { return Close(a, b, rel, abs) }

// Leq is a <= b up to the tolerance natively (exact in the real reading).
func Leq(a, b, rel, abs float64) bool {
	return a <= b || Close(a, b, rel, abs)
}

func Observe(name string, v interface{}) {
	o := obsVal{Name: name}
	switch x := v.(type) {
	case float64:
		o.Bits = fmt.Sprintf("f:%016x", math.Float64bits(x))
		o.Repr = fmt.Sprintf("%g", x)
	case bool:
		if x {
			o.Bits = "b:1"
		} else {
			o.Bits = "b:0"
		}
		o.Repr = o.Bits
	default:
		rv := reflect.ValueOf(v)
		switch rv.Kind() {
		case reflect.Int, reflect.Int8, reflect.Int16, reflect.Int32, reflect.Int64:
			bits := rv.Type().Bits()
			u := uint64(rv.Int())
			if bits < 64 {
				u &= (1 << uint(bits)) - 1
			}
			o.Bits = fmt.Sprintf("i:%x", u)
			o.Repr = fmt.Sprint(rv.Int())
		case reflect.Uint, reflect.Uint8, reflect.Uint16, reflect.Uint32, reflect.Uint64, reflect.Uintptr:
			o.Bits = fmt.Sprintf("i:%x", rv.Uint())
			o.Repr = fmt.Sprint(rv.Uint())
		default:
			o.Bits = "?"
		}
	}
	out.Observed = append(out.Observed, o)
}

func Panics(f func()) (p bool) {
	defer func() {
		if r := recover(); r != nil {
			if _, ok := r.(skip); ok {
				panic(r)
			}
			p = true
		}
	}()
	f()
	return false
}

// ---- frozen inputs

func snapshot(v reflect.Value, sb *strings.Builder, depth int) {
	if depth > 8 {
		return
	}
	switch v.Kind() {
	case reflect.Float64, reflect.Float32:
		fmt.Fprintf(sb, "%x,", math.Float64bits(v.Float()))
	case reflect.Int, reflect.Int8, reflect.Int16, reflect.Int32, reflect.Int64:
		fmt.Fprintf(sb, "%d,", v.Int())
	case reflect.Uint, reflect.Uint8, reflect.Uint16, reflect.Uint32, reflect.Uint64, reflect.Uintptr:
		fmt.Fprintf(sb, "%d,", v.Uint())
	case reflect.Bool:
		fmt.Fprintf(sb, "%v,", v.Bool())
	case reflect.String:
		fmt.Fprintf(sb, "%q,", v.String())
	case reflect.Slice:
		fmt.Fprintf(sb, "[%d:", v.Len())
		// the whole backing array up to cap matters for aliasing appends
		full := v
		if v.Cap() > v.Len() {
			full = v.Slice(0, v.Cap())
		}
		for i := 0; i < full.Len(); i++ {
			snapshot(full.Index(i), sb, depth+1)
		}
		sb.WriteString("]")
	case reflect.Array:
		for i := 0; i < v.Len(); i++ {
			snapshot(v.Index(i), sb, depth+1)
		}
	case reflect.Struct:
		sb.WriteString("{")
		for i := 0; i < v.NumField(); i++ {
			snapshot(v.Field(i), sb, depth+1)
		}
		sb.WriteString("}")
	case reflect.Ptr, reflect.Interface:
		if v.IsNil() {
			sb.WriteString("nil,")
		} else {
			snapshot(v.Elem(), sb, depth+1)
		}
	case reflect.Map:
		fmt.Fprintf(sb, "map%d,", v.Len())
	}
}

// Freeze records the current contents of the values; any difference at the end
// of the run (or at Thaw) is reported as "input modified".
func Freeze(xs ...interface{}) {
	for i, x := range xs {
		v := reflect.ValueOf(x)
		var sb strings.Builder
		snapshot(v, &sb, 0)
		frozen = append(frozen, frozenRec{v, sb.String(), fmt.Sprintf("arg%d(%T)", i, x)})
	}
}

func checkFrozen() {
	for _, f := range frozen {
		var sb strings.Builder
		snapshot(f.v, &sb, 0)
		if sb.String() != f.snap {
			out.Fails = append(out.Fails, "input modified: "+f.desc)
		}
	}
	frozen = nil
}

// Thaw checks and releases everything frozen so far.
func Thaw(xs ...interface{}) { checkFrozen() }

// ---- engine-only vocabulary (never reached natively)

func FreshFloat(name string) float64              { panic("vx.FreshFloat: engine only") }
func FreshInt(name string) int                    { panic("vx.FreshInt: engine only") }
func UFloat(name string, args ...float64) float64 { panic("vx.UFloat: engine only") }
func Concretize(i int) int                        { return i }
func IsConcrete(v interface{}) bool               { return true }
func Epoch()                                      {}

// NoGlobalWrites reports (engine only) that no repository function has stored to a package-level
// variable since the last Epoch; natively it cannot be observed and is true.
func NoGlobalWrites() bool { return true }

// NoSharedWrites reports (engine only) that no repository function has stored, since the last Epoch,
// into memory that already existed at that Epoch (inputs, captured variables of earlier closures).
func NoSharedWrites() bool { return true }

// Ite and friends build one term instead of forking (natively: plain Go).
func Ite(c bool, a, b float64) float64 {
	if c {
		return a
	}
	return b
}
func IteInt(c bool, a, b int) int {
	if c {
		return a
	}
	return b
}
func And(a, b bool) bool     { return a && b }
func Or(a, b bool) bool      { return a || b }
func Implies(a, b bool) bool { return !a || b }

// SameBits is bit identity of two floats (NaN equals NaN, +0 differs from -0).
func SameBits(a, b float64) bool { return math.Float64bits(a) == math.Float64bits(b) }

#!/bin/bash
# runs every thorough check in turn (development aid; not registered): prints one line per property
export GOFLAGS=-mod=mod GOPROXY=off GOSUMDB=off GOTOOLCHAIN=local
cd "$(dirname "$0")/.." || exit 2
(cd engine && go build -o ../bin/vcheck ./cmd/vcheck) || exit 2
for id in "$@"; do
  s=$(date +%s)
  out=$(./bin/vcheck -repo ${VP_RUN_REPO:-/repo} -verif $PWD -prop $id -tier thorough -no-evidence 2>&1)
  rc=$?
  e=$(( $(date +%s) - s ))
  echo "== $id rc=$rc ${e}s"
  echo "$out" | grep "SUMMARY\|VIOLATION\|INCONCLUSIVE\|NOT-REPR\|ENCODER\|KNOWN" | cut -c1-300 | head -12
done

#!/usr/bin/env python3
"""Regenerates /verif/MANIFEST.json from the table below (edit the table, not the JSON)."""
import json, os, sys
V = '/verif'
props = [json.loads(l) for l in open(f'{V}/properties.jsonl')]
TECH = "bounded symbolic execution of the real code's go/ssa form into SMT-LIB2 (z3 4.8.12 / z3 5.1.0 / cvc5 1.0.3); solver verdict over all inputs inside the stated bounds; every sat model replayed natively"
# id -> (design section, level text, level note (assumed / outside the claim))
CLAIMED = json.load(open(f'{V}/tools/claims.json'))
checks = []
na = []
for p in props:
    pid = p['id']
    c = CLAIMED.get(pid)
    if not c or not c.get('claimed'):
        na.append({"property_id": pid, "reason": (c or {}).get('reason', 'check not built yet (see DESIGN.md section 5 for the plan)')})
        continue
    e = {
        "property_id": pid,
        "quick_cmd": f"./check {pid} --tier quick",
        "evidence_file": f"/verif/evidence/{pid}.json",
        "replay_cmd_template": "./check --replay {path}",
        "engine": "vcheck",
        "level_claimed": {"category": "model_checking", "text": c['text'], "design_ref": f"DESIGN.md section 5 {pid}"},
        "level_note": c['note'],
        "technique": c.get('technique', TECH),
    }
    if c.get('thorough', True):
        e["thorough_cmd"] = f"./check {pid} --tier thorough"
    checks.append(e)
m = {
    "version": 1,
    "setup_cmd": "cd /verif/engine && GOFLAGS=-mod=mod GOPROXY=off GOSUMDB=off GOTOOLCHAIN=local go build -o /verif/bin/vcheck ./cmd/vcheck",
    "hooks": {
        "guard": "verif",
        "enable": "harness files carry //go:build verif and are injected by overlay (go/packages Overlay for the engine, go test -tags verif -overlay for native replay); nothing is added to /repo",
        "baseline_off_cmd": "cd /repo && GOFLAGS=-mod=mod GOPROXY=off GOSUMDB=off go test -vet=off -count=1 ./...",
        "source_commits": [],
        "add_only": True,
    },
    "engines": [{"name": "vcheck", "path": "/verif/engine", "serves_properties": [c['property_id'] for c in checks],
                 "kind_free_text": "own symbolic interpreter over golang.org/x/tools/go/ssa (v0.29.0) emitting SMT-LIB2 to long-lived z3/cvc5 processes; paths explored by re-execution along decision prefixes on 16 workers; models replayed against the native build"}],
    "checks": checks,
    "not_applicable": na,
    "notes": "Every check regenerates its encoding from /repo's working tree. Exit 1 only for a violation reproduced natively; solver unknowns, encoder gaps and unreproduced models are printed as INCONCLUSIVE / NOT-REPRODUCED and recorded in the evidence (coverage.exhaustive=false). known_findings.json lists repaired defects (status fixed: suppress nothing) and open ones (status known: reported as KNOWN-FINDING).",
}
json.dump(m, open(f'{V}/MANIFEST.json', 'w'), indent=1)
print(len(checks), 'claimed;', len(na), 'not applicable')

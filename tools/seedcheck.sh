#!/bin/bash
# tools/seedcheck.sh <worktree-dir> <prop-id> <seed-name> [tier]
# 1. confirms the seeded change in its scratch worktree (tests pass, demo fails with / passes without)
# 2. applies it to /repo, runs the property's check, and restores /repo
# 3. files everything under /verif/seeded/<seed-name>/
export GOFLAGS=-mod=mod GOPROXY=off GOSUMDB=off GOTOOLCHAIN=local
WT=$1; ID=$2; NAME=$3; TIER=${4:-quick}
S=$WT/_seed
[ -f $S/patch.diff ] || { echo "no patch in $S"; exit 2; }
PKG=$(python3 -c "import json;print(json.load(open('$S/meta.json')).get('demo_pkg_dir','').strip('/'))")
[ -n "$PKG" ] || PKG=$(head -1 $S/demo_test.go.txt | sed 's/.*place in: *//; s#/*$##')
cd $WT || exit 2
git checkout -q -- . ; rm -f $PKG/zz_seed_demo_test.go
cp $S/demo_test.go.txt $PKG/zz_seed_demo_test.go
go test -vet=off -count=1 ./$PKG > /tmp/seed_$NAME.clean.log 2>&1; CLEAN=$?
git apply $S/patch.diff || { echo "patch does not apply in worktree"; exit 2; }
go build ./... > /tmp/seed_$NAME.build.log 2>&1; BUILD=$?
go test -vet=off -count=1 ./$PKG > /tmp/seed_$NAME.demo.log 2>&1; DEMO=$?
rm -f $PKG/zz_seed_demo_test.go
go test -vet=off -count=1 ./... > /tmp/seed_$NAME.suite.log 2>&1; SUITE=$?
git checkout -q -- .
echo "confirm: demo-on-clean-tree exit=$CLEAN (want 0) build=$BUILD (want 0) demo-with-change exit=$DEMO (want !=0) suite-with-change exit=$SUITE (want 0)"
if [ $CLEAN -ne 0 ] || [ $BUILD -ne 0 ] || [ $DEMO -eq 0 ] || [ $SUITE -ne 0 ]; then echo "SEED-REJECTED $NAME"; exit 3; fi
# run the check against /repo with the change applied
cd /repo && git apply $S/patch.diff || { echo "patch does not apply to /repo"; exit 2; }
cd /verif && timeout 3600 ./check $ID --tier $TIER -no-evidence > /tmp/seed_$NAME.check.log 2>&1; RC=$?
cd /repo && git checkout -q -- . && git status --short | head -3
mkdir -p /verif/seeded/$NAME
cp $S/patch.diff /verif/seeded/$NAME/patch.diff
cp $S/demo_test.go.txt /verif/seeded/$NAME/demo_test.go.txt
grep -h "VIOLATION\|violated:\|SUMMARY" /tmp/seed_$NAME.check.log | head -8 > /verif/seeded/$NAME/check_output.txt
python3 - <<PY
import json
m=json.load(open('$S/meta.json'))
m['confirmed']={'demo_on_clean_tree_exit':$CLEAN,'build_with_change_exit':$BUILD,'demo_with_change_exit':$DEMO,'existing_suite_with_change_exit':$SUITE,
  'commands':['git checkout -- . ; cp demo $PKG/ ; go test -vet=off -count=1 ./$PKG   (clean tree)','git apply patch.diff ; go build ./... ; go test -vet=off -count=1 ./$PKG   (with change)','rm demo ; go test -vet=off -count=1 ./...   (existing suite with change)']}
m['check']={'command':'git -C /repo apply patch.diff ; ./check $ID --tier $TIER ; git -C /repo checkout -- .','exit':$RC,'detected':$RC==1}
json.dump(m,open('/verif/seeded/$NAME/meta.json','w'),indent=1)
print('check exit',$RC,'=> detected' if $RC==1 else '=> MISSED')
PY
tail -3 /tmp/seed_$NAME.check.log | grep -v "^warning"
